# id -> claim text for MANIFEST.json (exec'd by mk_manifest.py)
NOT_CLAIMED = {}
CLAIMS["C01"] = dict(
    text="Proved in Lean for every number of states/events/transitions, every field and every interpretation of the transcendental symbols: "
         "the assembly folds of get_ode_eqn / get_StateChangeMatrix / get_EventRateVector / get_pureOdeVector / get_ReactantMatrix equal "
         "sum_events rate*net + explicit terms, V entries = net magnitudes, ODE = V*a + pure, reactant entries, derived-parameter substitution. "
         "The hand-written model is tied to the code on every run by differential correspondence (symbolic, exact-point 50-digit; numeric evaluators; both back-ends; malformed definitions), "
         "including what the purity of the model implies for histories: results kept across later calls, parameter re-assignment and restoration, container/dtype forms of the arguments, "
         "a second live instance with permuted declarations built in stages, a deep copy.",
    note="Trusted: Lean kernel + Mathlib; the harness (generator, printer, interpreter); sympy parser/subs and lambdify/autowrap are validated per case, not proved. "
         "Identity of expressions is decided at 4 random rational points per case.",
    technique="Lean 4 induction over event/transition lists (fold = sum) + model/code correspondence")
CLAIMS["C03"] = dict(
    text="Proved in Lean (Mathlib HasDerivAt): the symbolic differentiator used by the model is the true derivative of every expression of the rate grammar "
         "away from singularities (hasDerivAt_diff, defined_diff), and the Jacobian / gradient / second-derivative / gradient-Jacobian / parameter-parameter (grad_grad) objects hold exactly those "
         "derivatives at the documented positions (row e*nS+i, k*nS+i, i*nP+j layouts) for every number of states and parameters; transitionJacobian/Mean/Var equal Cao et al. (7),(8a),(8b). "
         "sympy's diff and the compiled evaluators are tied to the verified differentiator on every generated model of every run (symbolic exact-point comparison + numeric), "
         "with a Lean-independent 50-digit finite-difference oracle for the failing-input search; results are kept across later calls, parameter re-assignments, a permuted second instance and a deep copy and judged again.",
    note="Trusted: Lean kernel + Mathlib; harness generator/printer/interpreter. Modelled rather than verified: sympy.diff, Matrix.jacobian, lambdify/autowrap (translation-validated per model). "
         "Expression identity decided at 3 random rational points per case.",
    technique="Lean 4 structural induction on expressions (HasDerivAt) + index-arithmetic lemmas + model/code correspondence")
CLAIMS["C10"] = dict(
    text="Proved in Lean: for every transition-only model (any number of states/events, symbolic magnitudes, any field/interpretation) the assembled right-hand side sums to zero identically and every "
         "state-change column sums to zero; a differentiable solution of x'=f(x) with sum f = 0 keeps the total constant (Mathlib calculus); every path built from integer combinations of "
         "zero-sum columns keeps the total exactly, for every number of steps and any counts (induction). Tie: C01 correspondence for the assembly, the real stochastic paths are replayed through the "
         "driver's apply_counts (the function the path theorem is about); direct oracle = the property on the real objects (exact-point sum of get_ode_eqn, integrate(t).sum, solve_stochast path sums, exact/tau/gridded).",
    note="Deterministic conservation is judged to 1e-6 relative (scipy odeint tolerance assumed; failed integrations are skipped and counted). Crashes of solve_stochast are tagged, not judged (C04/C11/C15 own them). "
         "Adaptive tau runs are cut at 8 s (termination is a probability-one statement).",
    technique="Lean 4 induction over events/steps + Mathlib is_const_of_deriv_eq_zero + model/code correspondence")
CLAIMS["C02"] = dict(
    text="PARTIAL: the accuracy of scipy's integrators is assumed (an ideal flow with the identity and semigroup laws is a hypothesis of every theorem) and validated at run time; "
         "what is proved in Lean, for every state/time type, every grid (any length, uniform or not), every method string, both full_output values and every buffer-aliasing table, is the "
         "row bookkeeping of integrateFuncJac / _integrateOneStep / _setupIntegrator / _determineIntegratorGivenEigenValue / _setIntegrateTime / integrate / integrate2 / solve_determ: "
         "one row per requested time, in order, preceded by x0 where the origin is included, each row the flow at that time (rows_correct: whenever r.y is copied, or the integrator does not alias "
         "its buffer, or the full-output path re-creates the integrator from (o1, deltaT)); rows_aliased proves the former defect (aliased buffer, no copy: every row is the final state); "
         "method_dispatch states the two decision tables outright. The model is tied to the code on every run (i) exactly, by driving the real functions with a fake exact integrator of x'=c "
         "with a chosen buffer behaviour, and (ii) by running every entry point x 6 methods x full_output x includeOrigin on random and catalogue models against an independent reference "
         "(solve_ivp DOP853 1e-12, Radau cross-check, right-hand side from the Lean driver's assembled equations), acceptance |row-ref| <= 1e-6(1+|ref|). "
         "Several calls: the instance state carried between calls (_x0, _t0, _odeTime, _odeSolution) is modelled (Inst/SOp/runOps) and session_is_pure / earlier_results_kept / "
         "solve_reads_current prove that, for every history of assignments and solves, each result is the single-call function of its own arguments and the values assigned last and "
         "that earlier results are unaffected (stale_grid_counterexample: a time vector kept when the grid repeats breaks this); tied exactly by random histories on one real model "
         "against the fake integrator, and searched with the direct oracle by sessions on the real integrators: histories on one instance (change t0 / x0 / parameters / grid / "
         "container / method / full_output / includeOrigin / entry point, solve, restore, solve), sibling instances (permuted declarations, other values, re-definitions, twin, deepcopy) "
         "solved interleaved, and every accepted spelling of grid / x0 / t0 / parameters; returned arrays are kept and re-read after every later call, arguments checked for writes "
         "(a write alone is a side effect: tag + mismatch). The grid is an arbitrary list in every theorem; stated outright: row_at_requested_time, repeated_times_equal_rows (a time asked twice gets the flow "
         "there twice), rows_translation_invariant (for an autonomous flow the rows do not depend on where (t0, grid) sits on the time axis), repeated_time_shortcut_counterexample. "
         "The direct oracle places every runtime case near the origin or far from it (|t0| up to 1e7, both signs, spacing below 1e-5|t|), on horizons from t0 + 2^-30 T to 8T, on grids with repeated "
         "times, neighbours one / a few ulps apart, a first time at or one ulp after t0, one point; models include time-dependent rates and every kind of right-hand side that is first order "
         "in the states (linear chains, constant inflow, constant explicit ODE terms, time-dependent coefficients, symmetric / zero Jacobians), zero parameters and zero initial states; the "
         "reference is integrated in the real time.",
    note="Trusted: Lean kernel; scipy.integrate.solve_ivp as reference; the harness fake integrator, float evaluator and generators; hand-written catalogue equations. "
         "Assumed and validated per run: scipy's ode/odeint approximate the flow (well-conditioned instances only; for the odeint entry points, which run at scipy's default tolerance 1.49e-8, "
         "the acceptance is max(1e-6, 20 x the error of scipy's own odeint on the same instance)); set_initial_value copies; `aliased` is measured on the real scipy (lsoda aliases in scipy 1.18). "
         "solve_determ is covered for fixed (non-random) parameters only. Integration failure (IntegrationError) is outside the model: on grids with a zero-length or <= 32-ulp step the "
         "scipy.integrate.ode based entry points may refuse (tagged, not judged; what they return is judged), and where scipy's own odeint fails (first output within 4 ulps of t0) pygom.integrate "
         "passes on its uninitialised rows without looking at the success flag (observed, not judged).",
    technique="Lean 4 induction over the time grid with buffer cells (value | reference) + exact fake-integrator correspondence + independent-reference oracle")
CLAIMS["C12"] = dict(
    text="Proved in Lean: every API route (Event with a rate, Event whose single or member transition carries the rate, bare Transition given to add_event, legacy transition=/birth_death= lists, "
         "births named by origin or destination) appends an event with the same core, and assembly reads only cores, so the assembled equations are syntactically identical (assemble_congr); "
         "order of events / explicit terms and the explicit-ODE route leave the value of the ODE unchanged in every field and interpretation; comma/space string declarations split into exactly the "
         "listed names for any separators. building with the incremental operations ops1++ops2 is building with ops1 and folding ops2 over the result (staged_build). Tie and oracle: each random process set is entered three times "
         "through independent route assignments, orders, declaration styles and container forms (list, tuple, one bare object, *_list assignment) on the real code, the three instances built in an "
         "interleaved schedule with evaluations in between (every intermediate model compared with the spec read so far); the real models must agree with each other and with the process set's own ODE "
         "(get_ode_eqn exact-point, ode/jacobian numerics, multiset of (rate, column) pairs), and each is compared with the driver's assemble.",
    note="Trusted: Lean kernel + Mathlib; harness generator/printer/interpreter. sympy parsing is validated per case. Expression identity decided at 2 random rational points.",
    technique="Lean 4 case analysis of constructors/routes + congruence of assembly + permutation invariance; model/code correspondence")
CLAIMS["C14"] = dict(
    text="Proved in Lean (Mathlib real analysis) about per-observation formulas REGENERATED from loss_type.py / distn.py on every run by a Python-AST "
         "symbolic executor (translate_kernels.py -> lean/Pygom/Gen/Kernels.lean), for all reals in the valid domain (yhat > 0; sigma, shape, k > 0; "
         "y a natural number for the count losses, y > 0 for Gamma): Square loss = squared weighted residual; Normal / Poisson / Gamma / NegBinom loss = "
         "-log of gaussianPDFReal(yhat, sigma^2) / poissonMeasure(yhat){y} / gammaPDFReal(shape, shape/yhat) / the negative-binomial mass "
         "Gamma(k+y)/(Gamma(k) y!) (k/(k+yhat))^k (yhat/(k+yhat))^y; for all five classes diff_loss = HasDerivAt-derivative of the unweighted loss in the "
         "prediction and diff2Loss = derivative of diff_loss; with weights diff_loss = w x that derivative and the Normal loss is the N(0,sigma^2) "
         "nll of the weighted residual (as the code has it); apply_weighting=False = unit weight. The array glue (vector, (n,1), (1,n) inputs; default / "
         "scalar / per-observation spread; weights) is tied per run: real loss/diff_loss/diff2Loss against scipy.stats reference log-densities, 50-digit "
         "mpmath derivatives of independent closed forms, expected shapes, and the translated formula evaluated numerically (translation validation). "
         "Call sequences: the modelled kernel object is its data and has no state (session_is_pure, earlier_results_kept, repeat_reproduces, objects_do_not_interact); "
         "the real objects are TESTED against that per run (not proved): one prediction buffer object refilled in place or re-viewed between calls, sibling objects of the "
         "same class in between, deepcopy / pickle, a new object on the caller's refilled observation array, results kept or overwritten by the caller, y / prediction / "
         "spread / weight containers and dtypes varied; every value against the closed forms at call-time content.",
    note="Trusted: Lean kernel + Mathlib; the translator (that the emitted Lean term denotes what the Python expression computes elementwise on reals; it refuses "
         "source outside its subset, which is reported as a broken tie); scipy.stats log-densities as executable references; gammaln(z) read as log Gamma(z) and "
         "st.poisson.logpmf read as its documented closed form; float vs real arithmetic at relative tolerance 1e-8. diff2Loss of Gamma / NegBinom under "
         "NON-unit weights mixes weighted and unweighted terms (Lean remark theorem); the property is about the unweighted loss and is checked at unit weight.",
    technique="Python-AST translator -> generated Lean definitions; Mathlib HasDerivAt / density theorems via canonical closed forms; differential correspondence with scipy / mpmath oracles")
CLAIMS["C19"] = dict(
    text="Proved in Lean by `decide` over tables REGENERATED from utilR/distn.py on every run (translate_wrappers.py -> lean/Pygom/Gen/Wrappers.lean): every d/p/q "
         "function of the nine families (exp, gamma, norm, chisq, unif, beta, pois, binom, nbinom; plain and log; nbinom by prob and by mu, both tails) calls the "
         "pdf/pmf, cdf (sf), ppf (isf) of the scipy.stats family it is named after with R's parameterisation (scale = 1/rate, loc = min & scale = max-min, a = shape, "
         "n = size & p = prob, p = size/(size+mu)); every listed family x kind is present; every generator draws from the generator test_seed prescribes "
         "(None -> global, int/bool -> RandomState(seed), True -> fresh, RandomState -> itself) through the family's numpy method, R-parameterised; for an integer "
         "seed every documented generator is served by RandomState(seed) only (seeded_generators_reproducible). Over the reals: scale=1/rate forms equal Mathlib's "
         "exponentialPDFReal / gammaPDFReal / gaussianPDFReal, the translated nb2pmf is the negative-binomial mass and the mean/size form equals the (n,p) form. "
         "Tied per run: every table row replayed through scipy/numpy against the real function; d/p/q against mpmath closed forms (generalised inverse for discrete "
         "quantiles, p(q(u)) = u, d = dp/dx); each rX twice with the same integer seed with the serving generator recorded; DKW test of 4000 seeded draws. "
         "Histories (tested per run, not proved; the Lean rows are pure functions and seeded_generators_reproducible holds for any two worlds): vectorised d/p/q calls "
         "through observation / parameter containers refilled in place (lists, float / int arrays, views, numpy scalars), elementwise against the closed forms, results kept or "
         "overwritten by the caller; sessions of 8-20 generator calls (several generators and integer seeds, n = 1 and n > 1, unseeded and RandomState-seeded calls in between): "
         "equal (generator, parameters, n, seed) give equal draws and the single draw is the head of the block.",
    note="Trusted: Lean kernel; the translator and its table printer; scipy.stats methods as implementations of the named families and numpy samplers' laws "
         "(validated per run against closed forms, not proved); numpy RandomState(seed) is a function of the seed. pbeta does not exist in pygom.utilR and rbeta "
         "ignores its seed (not among the documented seeders): noted, not claimed. Until the proposed fixes are applied the check reports the genuine defects "
         "pchisq:returns-pdf, dchisq:raises, dbeta:log-ignored, qpois:log-ignored, runif:int-seed-ignored, pnbinom/qnbinom/rnbinom:stub.",
    technique="Python-AST translator -> generated Lean tables checked by `decide` against a decidable specification; Mathlib density lemmas; differential correspondence with mpmath oracles and recorded generators")
CLAIMS["C09"] = dict(
    text="Proved in Lean for every list of distinct parameter names, every value type and every history of assignments of any length, about a "
         "line-by-line model of the `parameters` setter (insertion-ordered dict with string keys from positional input and symbol keys from pair "
         "lists / dicts, dict input extending the existing dict, the `_paramValue` unroll loop): every acceptable assignment (list/tuple/array of n "
         "numbers, n (name,value) pairs in any order, a dict of at most n known names keyed by name or Symbol) is accepted and changes the "
         "name->value map exactly as the two-line spec says (full assignment replaces every name, partial update overrides only the names it "
         "mentions) - the key invariant being that no entry of the same name follows a symbol-keyed entry, so the later duplicate key wins the "
         "unroll loop; hence `_paramValue[i]` is the latest value supplied for `params[i]` after every history (atomic setter: arbitrary "
         "histories incl. rejected assignments; setter as originally written: histories of accepted assignments, with machine-checked "
         "counterexamples for rejected ones); permutation invariance of pair lists and dicts; all accepted forms agree; wrong lengths, too many "
         "dict entries and unknown names are always rejected.  The model is tied to the code on every run by differential correspondence after "
         "EACH assignment of random mixed-format histories (accept/reject + error kind, the public `parameters` getter, `ode(x,t)` against the "
         "model's `_paramValue`), and a Lean-independent oracle checks `ode`/`grad` against the harness interpreter and a freshly built model "
         "at the values a plain Python dict spec gives each name, that malformed input raises, and that a rejected assignment changes no evaluation. "
         "Copies and several live instances: for every interleaving of assignments addressed to any live instance and copy.deepcopy of any instance "
         "at any moment, `_paramValue[i]` of EVERY instance (original, copy, copy of a copy) is the value its own spec map gives `params[i]` - the "
         "original's map at the moment of the copy, overridden by the copy's own assignments (copies_bind_by_name; a `__setstate__` that rebuilds the "
         "value list in map insertion order: setstate_rebuild_counterexample).  The harness runs such systems of up to three live instances "
         "(evaluation continues on the copy and on the original, every instance judged after every operation), transient copy.copy / pickle probes, "
         "a second model with the same names assigned other values in between, numbers as Python / numpy scalars and int / float arrays, the caller "
         "overwriting his container afterwards (the evaluations must not follow); a container written to by pygom is recorded as a side effect (tag), "
         "only wrong evaluations are violations.",
    note="Trusted: Lean kernel + Mathlib; the harness (generator, printer, interpreter, the 40-line Python dict spec of the oracle). The setter variant "
         "(does a rejected assignment leave `_parameters`/`_paramValue` touched) is measured on the tree under test by a fixed probe and passed to the "
         "model; both variants are covered by theorems. Documented non-claims (stated as lemmas): a partial update on a never-set model binds the "
         "unmentioned names to 0; a pair list may repeat a name (last wins, the name left out becomes 0); `'t'` resolves as a symbol and is "
         "rejected only by the index lookup; a single-parameter scalar is always rejected (TypeError: unhashable ODEVariable); Symbol names in a "
         "pair list are rejected. Not modelled: frozen-distribution / (callable,args) dict values (C16), ODEVariable parameters whose name differs from their ID.",
    technique="Lean 4 refinement proof (abstraction to a name->value map, representation invariant, induction over histories) + model/code correspondence + direct oracle")
CLAIMS["C04"] = dict(
    text="Proved in Lean about an executable model of firstReaction / tauLeap / _get_adaptive_tau_step / the cython safety loop / _checkJump / the `while t < finalT` "
         "loop of _jump (Pygom/Stoch.lean), for every model (arbitrary rate, state-change, ODE, mean and variance functions, any number of states and events, "
         "one included) and every list of random draws of any length: the path starts at (x0,t0); recorded times are strictly increasing (positive exponential "
         "variates, epsilon>0, positive pre_tau if set; adaptive tau proved positive; the safety loop proved to be the identity); counts are naturals, one per event, "
         "one-hot with a positive-rate event on every first-reaction step (all steps in exact mode) and the first minimal waiting time is the one taken; "
         "x_{k+1}-x_k = V(x_k,t_k).counts_k componentwise, plus pureOde.tau on tau-leap steps; the loop is left exactly at t>=finalT, or when all rates are zero, or when a "
         "first-reaction proposal leaves the limits. Termination in finitely many steps is not proved (probability-one statement; path_exit_partial proves no iteration stalls). "
         "The model is tied to the code on every run: the real solve_stochast is run with every numpy draw and evaluator call recorded and every loop iteration is replayed "
         "through the Lean driver from the observed pre-state (post-state and counts exactly, times/tau to 1e-12).",
    note="Trusted: Lean kernel; the harness (generator, tracer wrapping numpy.random / evaluators / _jump, step cap and rate cap that end explosive runs); numpy's generator "
         "as the source of variates; IEEE double vs exact rationals at 1e-12. Direct oracle independent of Lean: start, finite strictly increasing times, integer counts, "
         "one event per exact step, fired events have positive rate, dx = vMat.counts (+ pureOde.dt), legal exit. Shares the range-style limit-list defect with C11 "
         "(crash by negative rate) until proposed_fixes/C11-range-style-limits.diff is applied.",
    technique="Lean 4 induction over draw lists (step specification + loop invariant) + per-step differential replay of the real run")
CLAIMS["C11"] = dict(
    text="Proved in Lean: _checkJump rejects exactly the proposals that violate an entry of the limit list, returns the old state and time on rejection and the proposed "
         "state and t+dt on acceptance ((None,None) skipped, lower-only, upper-only, two-sided); every state recorded by the _jump loop is within the limit list - exact mode, "
         "adaptive or fixed tau, any epsilon, any magnitudes, with or without the first-reaction retry, for every model and every draw list with no hypothesis on the draws; "
         "the (repaired) limit list has one entry per state, aligned with the state it was declared for (range-style declarations expanded), default (0,None), hence every "
         "state of every row respects its own declared limits. The limit list of the unrepaired tree (one entry per declared name) is proved to accept a forbidden state "
         "(legacy_limits_counterexample) and to misalign later limits. Tie: per-iteration replay of real runs (accept/reject, branch, retry), the limit list itself, and every "
         "rejected step replayed through the public tauLeap / firstReaction with the recorded variates.",
    note="Trusted: Lean kernel; harness generator/tracer. Assumed: x0 within limits; gridded tau-leap rows are numpy's linear interpolation (checked by the direct oracle only). "
         "Direct oracle: min/max of raw and gridded arrays against the declared limits (lower 0 for every undeclared state), rejected steps leave (x,t) unchanged, steps inside "
         "the limits are not rejected. /repo violates the property for range-style state declarations until proposed_fixes/C11-range-style-limits.diff is applied "
         "(then flip nothing; without it set LEGACY_STATE_LIMS=True in harness/props/stoch_common.py to make the model follow the old list).",
    technique="Lean 4 loop invariant over arbitrary draw lists + list-alignment lemmas + differential replay of real runs")
CLAIMS["C15"] = dict(
    text="Proved in Lean about _extractObservationAtTime, numpy's histogram bin convention and the (repaired) _addJumpsBetweenTime: one row per requested time and one "
         "count row per interval; first row = initial state; row k is the record with the last time <= grid[k] (also past the last event); entry (k,i) of the counts is the number "
         "of firings of transition i with event time in numpy's bin k; and for paths with increasing times and increments V.counts (supplied by C04 for every exact-mode run) "
         "row_{k+1}-row_k = V.counts_k componentwise, under the hypothesis the proof forces: no event time coincides with an interior grid point (measure zero; a counterexample "
         "theorem shows it cannot be dropped). The exact-mode histogram of the unrepaired tree is refuted by exact_counts_counterexample. Time-argument normalisation "
         "(number / one-element list = horizon; longer list, tuple, any array = grid). Tie: real solve_stochast(grid, 2, exact=True, full_output=True) with the raw path recorded, rows and "
         "counts against the Lean driver exactly.",
    note="Trusted: Lean kernel; harness generator/tracer. Assumed: state-independent state-change matrix, grid starting at t0 and increasing. Direct oracle: plain last-record "
         "lookup, per-transition event counts per interval, rows differ by vMat.counts. /repo violates the property (exact-mode counts; IndexError for a path without events) until "
         "proposed_fixes/C15-exact-interval-counts.diff and C15-path-without-events.diff are applied (without the first set LEGACY_EXACT_COUNTS=True in harness/props/stoch_common.py).",
    technique="Lean 4 list induction (prefix sums selected by time, sum exchange) + differential replay of real gridded runs")
CLAIMS["C13"] = dict(
    text="PARTIAL. Proved in Lean for every number of states nS and parameters nP (model lean/Pygom/Sens.lean mirrors ode_and_sensitivity, "
         "ode_and_sensitivityIV, sens_jacobian_state, the *_jacobian block assembly and the vec/mat reshapes as index arithmetic): the augmented "
         "right-hand sides are f, J.S+G and J.S0 in the documented layouts (by parameter, by state, initial values in 'F' order); every entry (r,c) of "
         "ode_and_sensitivity_jacobian (by parameter) and of ode_and_sensitivityIV_jacobian (also nP = 0) is the HasDerivAt-derivative of component r of "
         "the corresponding right-hand side in z_c; the by-state matrix AS CODED is not (counterexample by decide, nS=2, nP=3; confirmed on the real code "
         "against finite differences) while the proposed repair is; reshape round trips. ASSUMED, not proved: that integrating these variational "
         "equations yields dx(t)/dtheta and dx(t)/dx0 (classical smooth-dependence theorem, not in Mathlib) - checked on every run against finite "
         "differences of 1e-12 reference solutions. The model is tied to the code per run: real functions vs the Lean driver on the exact rational "
         "J, G, dJ, dG of each random model, and a Lean-free oracle (explicit-loop J.S+G and block Jacobians; Richardson finite differences of the real "
         "right-hand sides). Purity along sessions is proved for the model (session_is_pure, earlier_results_kept, revisit_reproduces, "
         "instances_do_not_interact) and replayed on live instances with the same oracle: every entry point incl. the _T twins and component "
         "evaluators, the point in 13 containers/dtypes (integer-valued points as int arrays and Python ints), revisits after another time, a sibling "
         "instance, a parameter re-assignment and an added transition, every returned array kept and compared at the end.",
    note="The derivative theorems take as hypotheses that jacobian/grad/diff_jacobian/grad_jacobian are the partial derivatives they are named after "
         "(C03's theorems; to be discharged there) and that mixed second partials commute (C^2 right-hand side; symmetry of diff_jacobian is re-checked "
         "exactly on every generated model). Trusted: Lean kernel + Mathlib, harness generator/printer/interpreter, driver JSON glue, float tolerances "
         "(1e-9 model tie, 1e-6 finite differences, 1e-5 integrated sensitivities). Defects: by_state=True Jacobian wrong (proposed_fixes/C13-by-state-jacobian.diff), "
         "one-state models raised (fixed 0a7e442); lambda back-end: fixed-width integer states wrap around inside the compiled expressions "
         "(found by the input-form probes, fixed ea55e76; corpus/C13/int-state-wraparound.json keeps watching).",
    technique="Lean 4: index arithmetic (omega/simp) for layouts, HasDerivAt product rule over finite sums for the block Jacobians, decide for the "
              "counterexample + model/code correspondence + finite-difference oracle")
CLAIMS["C20"] = dict(
    text="PARTIAL - assumed: integrating the first- and second-order sensitivity systems yields the first and second derivatives of the solution "
         "in the parameters (variational-equation theorem, not in Mathlib; hypotheses hy, hs of hessian_is_second_derivative_partial) and scipy's integrator "
         "is accurate. Proved in Lean for every number of observations, observed states, states and parameters: sens_to_jtj returns "
         "jtj[a][b] = sum_i sum_j w_ij^2 S_ija S_ijb, which is symmetric and positive semi-definite (Mathlib Matrix.PosSemidef); "
         "eval_forwardforward (mirrored line by line, including grad_jacobian.dot(S).reshape(nP,nS,nP).transpose(1,0,2), + transpose(0,2,1), "
         "+ grad_grad) computes, in row i*nP+a and column b, exactly the TRUE second-order sensitivity right-hand side "
         "J.X_ab + sum_kl d2f_i/dx_k dx_l S_ka S_lb + sum_k d2f_i/dx_k dtheta_b S_ka + sum_k d2f_i/dx_k dtheta_a S_kb + d2f_i/dtheta_a dtheta_b "
         "(ff_rhs_is_true), which is the total derivative of the first-order right-hand side J.S_a + G_a in theta_b "
         "(ffTrue_is_total_derivative_of_sens_rhs; C03 proves the derivative objects, grad_grad included); ode_and_forwardforward puts it in the "
         "documented positions; given second-order sensitivities, entry (a,b) of hessian is the derivative in the b-th target parameter of component a of "
         "gradient for the weighted square loss, for every selection and order of observed states and target parameters. History theorems: the right-hand "
         "side as found lacked the three parameter groups (ff_rhs_asFound_counterexample), the assembly as found had the wrong sign (hessian_asFound_sign_counterexample). "
         "Per run, on SIR/SEIR/SIR_norm and random bounded models (parameter x state, parameter x parameter and squared-parameter rates tagged): jtj vs the sum of "
         "outer products of finite-difference sensitivities of reference solutions, symmetry, eigenvalues; hessian vs central differences of the reference gradient "
         "(any difference is a violation); ode_and_forwardforward pointwise vs the Lean model fed with the evaluators' values and vs an independent second-order "
         "system whose derivatives are taken in the harness from get_ode_eqn(). hessian / jtj with full_output=True are judged by the same direct oracle and their "
         "dictionaries entry by entry (JTJ, grad, H, resid, sens); every case runs a session on the live loss object (same theta asked again after a write into the "
         "returned matrix, after costIV / residualIV / diff_lossIV / sensitivityIV moved the initial state and back, after a non-target parameter of the shared ode "
         "changed and back, after scrambling the ode, another theta, another loss object on the same ode, a deepcopy; theta as list / tuple / array / numpy scalars / "
         "omitted; constructor arguments as list / tuple / float or int arrays), each evaluation judged against the oracle of the state current at that moment, "
         "returned arrays kept and compared at the end; the Lean sensToJtj / hessian are functions of their explicit arguments (no instance state).",
    note="Assumed (as in C13): integrating a sensitivity system yields the derivative of the solution; scipy integrators within tolerance; finite-difference "
         "Hessian of the reference cost accurate to ~1e-6 relative (comparisons at 1e-3). Defects found and repaired in /repo: sign / weight of the second-order term "
         "(0f0d14a), per-observation weight vector for one observed state (62436c6), missing mixed state-parameter and parameter-parameter second derivatives in the "
         "forward-forward system (proposed_fixes/C20-hessian-mixed-terms.diff: new evaluator grad_grad; was known finding C20-hessian-mixed-terms, now a fix; a regression "
         "is reported as VIOLATION with signature hessian:missing-mixed-terms / forwardforward:rhs-not-second-order-equation); sens_to_jtj / sens_to_grad scaled the caller's "
         "sensitivity array in place, so a second call on the same array applied the weights twice (06ea049, proposed_fixes/C20-sens-accumulators-modify-argument.diff); order-related failures were the C07 "
         "index-order repair (signatures *:sens-index-order). Not claimed: ode_and_forwardforward_jacobian is only the block-diagonal approximation the code documents.",
    technique="Lean 4: finite-sum algebra and reshape/transpose index arithmetic, Matrix.posSemidef_conjTranspose_mul_self, HasDerivAt product rule, decide for the "
              "history counterexamples + model/code correspondence + finite-difference oracle + independent symbolic second-order system")
CLAIMS["C06"] = dict(
    text="PARTIAL - assumed: scipy's integrator returns the ODE solution at the observation times within tolerance (C02 'rows are the flow' + solver accuracy), "
         "and the per-entry kernels are C14's. Proved in Lean for every number of observations n, observed states p and states of the model: "
         "_setWeight_or_spread returns the n x p array whose (i,j) entry is the scalar / x[j] per state / x[i] per observation (p=1) / x[i][j] on every documented shape "
         "(broadcast_spec), succeeds on exactly the numpy shapes (1,), (p,), (n,) with p=1, (n,p), (1,p), (1,1) and a broadcastable (p,1) column (broadcast_accepts_iff), "
         "raises ValueError only for ragged input or a non-broadcastable (p,1) column and AssertionError otherwise (broadcast_error_class); column j of what the kernel sees is "
         "the j-th NAMED state in the order given and row i is time i (solution_selection); with target_param the k-th value is bound to the k-th supplied name (theta_bound_by_name); cost = sum_i sum_j kernel(y_ij, x_i[idxOf name_j], w_ij, spread_ij) (cost_is_loss); "
         "square cost is 0 when the data equal the model values (square_cost_zero_at_truth, any ring); replicate observations (equal model states at two observation times) get the same prediction "
         "(replicate_observations_same_prediction). Tied to the code on every run: _setWeight_or_spread and get_state_index "
         "against the Lean driver exactly (accepted and rejected shapes, exception class and site); cost / residual / costIV of the five real loss classes against scipy.stats "
         "log-densities of an independent DOP853 (1e-12) trajectory of the Lean-assembled right-hand side, for 1-3 observed states in any order, every weight / spread shape, "
         "target_param / target_state subsets in any order. Histories: the values a loss object holds over any sequence of calls are modelled (Held / step / outputs: unrollState_target, "
         "unrollState_other, earlier_outputs_unaffected, atStored_reproduces, output_depends_on_held_values_only) and scripts of calls of all eleven entry points on one or two loss objects "
         "(shared model object, user re-parameterisation, deepcopy, float and integer containers for every argument, t0 != 0) are judged against the same reference for the values held; "
         "returned arrays are kept and re-compared, the caller's arrays must stay unchanged. Observation grids: replicate times, grids far from the time origin (|t0| up to 1e6, both signs), "
         "horizons of t0 + tiny, times one ulp apart, an observation at t0, one point; models with time-dependent rates, first-order (affine) right-hand sides, one state, zero parameters / initial "
         "states; inputs the code rejects (wrong lengths, unknown state) must stay rejected and leave the object usable.",
    note="Trusted: Lean kernel + Mathlib; harness generator and reference (scipy solve_ivp DOP853, scipy.stats); the Lean driver's `assemble` (C01) as the reference right-hand side for random "
         "models, hand-written right-hand sides for the catalogue models (SIR, SEIR, Lotka_Volterra, FitzHugh). Tolerance: 1e-6 x sum|per-entry terms| + effect of a 1e-7 relative "
         "perturbation of the prediction (pygom integrates at 1e-10). Cases whose reference trajectory leaves [0, 100] (population models) are not counted. "
         "Non-claims: Poisson / Gamma / NegBinom costs ignore the weights (as coded); a (p,1) 2-D weight column is read per row (broadcast_column_quirk); costIV with target_param "
         "given, target_state absent and len(target_param)+nS == nP is rejected by the code as ambiguous (skipped, tagged); observation grids the code refuses with an error (observation at t0, "
         "times one ulp apart, a one-point grid with several observed states, replicate times when the trial integrate2 restarts on dopri5 or the right-hand side is identically zero) are tagged, not judged.",
    technique="Lean 4 case analysis of the shape decision tree + list/sum lemmas; model/code correspondence; independent reference integration + scipy.stats densities")
CLAIMS["C07"] = dict(
    text="PARTIAL - assumed: integrating the forward-sensitivity (variational) system yields the derivative of the flow in parameters and initial values (hypothesis hsens; classical, "
         "not in Mathlib), and each kernel's diff_loss times the weight is the derivative of its loss in the prediction (hypothesis hkernel; C14). Proved in Lean (Mathlib HasDerivAt) for every "
         "number of states, parameters, observations, every selection and ORDER of observed states, free parameters and free initial values: the selected sensitivity column for (observed state a, "
         "free variable b) is idx_a + (p_b+1) nS resp. idx_a + (s_b+1+nP) nS at position a + b q (sens_index_spec, sens_index_spec_IV); sens_to_grad of those columns is, entry by entry and in the "
         "order supplied, the derivative of cost / costIV (grad_is_chain_rule, gradIV_is_chain_rule; grad_is_chain_rule_square and _normal discharge the kernel hypothesis for arbitrary weights, "
         "grad_is_chain_rule_unit_weights is the form for Poisson / Gamma / NegBinom). These full theorems are about the REPAIRED index functions (proposed_fixes/C07-index-order.diff, "
         "C07-target-state-index.diff), which is the variant the executable model is switched to (model_variant). For the tree as found (np.sort on the index lists) the full statement is false: "
         "grad_order_counterexample, grad_obs_order_counterexample, target_state_counterexample (decide); grad_is_chain_rule_partial holds for ascending observed states and parameters. "
         "Tied to the code on every run: _getTargetParamIndex / _getTargetParamSensIndex / _getTargetStateSensIndex / sens_to_grad against the Lean driver exactly on integer arrays; "
         "sensitivity / gradient / sensitivityIV / jac (all five classes, five integrator methods, full_output) against Richardson-extrapolated central differences of the independent reference cost "
         "and of pygom's own cost. Histories (state machine of C06): sensitivity / gradient / jac / sensitivityIV / jacIV / diff_loss / diff_lossIV after any sequence of calls of the eleven "
         "entry points (costIV moving a free initial value, a second loss object or the user re-parameterising the shared model, deepcopy), with observations / x0 / grid / weights / spreads in "
         "float and integer containers, against the reference derivative for the values the object holds at that moment.",
    note="On /repo without proposed_fixes/C07-*.diff this check reports VIOLATION (genuine defects: wrong gradient for observed states not in ascending index order; gradient in sorted instead of supplied "
         "target_param order; sensitivityIV with target_state raises TypeError; a per-observation weight vector with one observed state raises; GammaLoss with one observed state raised until fix 9a6447c) - "
         "see proposed_fixes/C07-*.diff, findings/C07_demo.py, corpus/C07/. Trusted: Lean kernel + Mathlib; harness generator, reference integration, finite differences "
         "(tolerance 1e-4 (1+|fd|) on the 1e-12 reference; 1e-3 (1+|fd|) + 1e-7 scale/h on pygom's own cost). Non-unit weights are exercised for Square and Normal only.",
    technique="Lean 4 + Mathlib HasDerivAt (chain rule over list sums), permutation/sortedness of index lists, decide counterexamples; model/code correspondence; finite-difference oracle")
CLAIMS["C08"] = dict(
    text="Proved in Lean for histories of any length and any interleaving of mutators, parameter assignments and evaluations, and for "
         "any semantics of 'compile then call': in the recompile-flag state machine of add_func / add_compiled_sympy_object / CompileCanary "
         "(snapshot = definition the generator read + argument list _sp at compile time; parameter values read at call time; ode master) "
         "every evaluation returns what a freshly constructed model with the same current definition and parameter values returns, "
         "provided every mutator trips the flags, the param_list/state_list setters refresh _sp, and the evaluator is in the canary's list "
         "(never_stale; never_stale_source for the source as modelled). For the tree as found the partial theorem (bad mutators only before "
         "the first evaluation) and concrete stale histories (add_ode after ode; parameter declared after a compile) are proved. "
         "The model is tied to the code on every run: random histories on the real SimulateOde, all 12 evaluators (grad_grad included) observed after every step "
         "against a freshly constructed model (direct oracle) and against the version the Lean driver predicts. "
         "Two live instances: with one flag dict per canary object (CompileCanary.trip() rebinds self._states - re-extracted from the text of "
         "compile_canary.py on every run, extracted_store_eq_source) operations addressed to one instance never change an observation of the other, "
         "in any interleaving (two_instance_noninterference, never_stale_pair, never_stale_pair_extracted); with ONE class-level dict shared by all "
         "canaries the other instance's compile marks a just-modified model's evaluator up to date (shared_store_stale_counterexample). "
         "The harness runs histories over two interleaved instances with the same names (driver op canary2 = Canary.pstep), lets the freshly built "
         "reference evaluate before or after the instance under test (part of the case), calls every evaluator at a second point in every argument "
         "form (list / tuple / ndarray, int / float dtype, numpy scalars; reference given the same arguments) and re-compares every array returned "
         "at the end of each round.",
    note="The Lean model (Canary.sourceCfg) describes the tree WITH proposed_fixes/C08-add-ode-trip.diff and C08-decl-setters-refresh-sp.diff applied; "
         "until they are applied ./check C08 reports a VIOLATION on /repo (add_ode, late parameter / state declarations). "
         "Trusted: Lean kernel; harness generator/replay; pymodel route replay; lambda back-end only; 'fresh model' assigns 0 to a parameter "
         "never given a value. Recompile pattern and flag dictionary are compared with the model but recorded only (tags). "
         "DeterministicOde on its own is not covered (it has no compiler object _SC and its canary watches nothing).",
    technique="Lean 4 invariant over operation histories (induction on the op list, abstract compile semantics) + model/code correspondence + fresh-model oracle")
CLAIMS["C17"] = dict(
    text="Proved in Lean for every trial stream (= every seed, prior, model, kernel), every N, G, q, M and every get/continue sequence: "
         "a stored particle is the FIRST trial with prior-density product != 0 and cost < tolerance, its stored distance is that trial's cost "
         "(accepted_particle, run_particles); weights w1/w2 are > 0 and finite (weights_pos_finite); under quantile scheduling "
         "tol_{g+1} = Q(dist_g) <= max dist_g < tol_g inside a call and the tolerances never increase along any get/continue sequence "
         "(quantile_tolerances_step, quantile_tolerances_antitone); numpy's linear-interpolation quantile satisfies the one hypothesis used "
         "(quantileLinear_le_maxL); par_order binds the trial vector by name with the 10** back-transform applied exactly once "
         "(par_order_binds_by_name_partial, for loss objects made by create_loss; false for directly built loss objects: "
         "par_order_direct_loss_counterexample; the proposed repair is proved for every loss object: parOrderBy_binds_by_name). "
         "The model is tied to the code on every run by replaying the recorded trial stream of real ABC runs (rejection, tolerance list, quantile, "
         "MNN, continue) through the Lean driver (accept/reject decisions, distances, weights, tolerances, assertions, name binding), and the "
         "property itself is decided on the real attributes by a Lean-independent oracle (scipy prior density > 0, cost recomputed by a loss object "
         "built from scratch equals abc.dist to 1e-9 and is below the generation's tolerance, weights positive finite, tolerances non-increasing). "
         "Histories on one ABC object: a fresh get_posterior_sample reads nothing of the previous state (get_forgets_state), a continued run reads exactly N and "
         "final_tol - the stored population enters only through the trial stream (continue_reads_only_N_finalTol, genLoop_ignores_initial_dist). Per run the tolerance "
         "is handed over as float / int / numpy float64, float32, int64 scalars / inf / next_tol / list / tuple / float or int arrays, every stored distance is compared "
         "with the tolerance RECORDED for its generation and with the one APPLIED (which must be the same number), sequences contain a second fresh run, a second ABC "
         "object on the same loss object, a deepcopy continued one generation, and arrays read after every call are kept and compared later.",
    note="Assumed/trusted: np.quantile(l,q) <= max(l) (proved for the linear-interpolation definition, and the real np.quantile is compared with that "
         "definition to 1e-12 on every generation); positivity of the multivariate-normal kernel density (w2 > 0, observed on every accepted trial); "
         "prior densities >= 0 (observed); the recomputation oracle relies on pygom's integrator and loss kernels through a fresh loss object (C02/C06/C14). "
         "Trusted: Lean kernel + Mathlib, the harness recorders (instance-level wrappers), exact float->rational conversion, driver JSON codec. "
         "Known genuine defect on the unrepaired tree: ABC.par_order ignores the order of a directly built loss object "
         "(proposed_fixes/C17-par-order-follows-loss-object.diff).",
    technique="Lean 4 induction over trial streams / generations / call sequences + recorded-stream replay correspondence + recomputation oracle")
CLAIMS["C18"] = dict(
    category="proof",
    text="PARTIAL (the optimiser is assumed). Proved in Lean for every number of parameters: row i of the bounds array handed to the optimiser, "
         "np.reshape(np.append(lb, ub), (n, 2), 'F'), is (lb[i], ub[i]) (box_bounds_rows; with C order it is not: box_bounds_C_counterexample); "
         "if the optimiser returns a point of the box it was given (fit_in_box_partial) and - when the sensitivity it is handed is the gradient of cost, "
         "property C07 - with objective not above the start's, fit(x, lb, ub) returns a point in [lb, ub] with cost <= cost(x) (fit_contract_partial); if it returns its start when the gradient there is below pgtol, fit(theta*) = theta* on "
         "noise-free data (fit_at_truth_partial, fit_at_truth_of_zero_residual via grad_zero_at_truth); mismatched bound lengths are rejected "
         "(fit_rejects_bad_lengths). Tied to the code on every run: scipy.optimize.minimize as seen from base_loss is wrapped and the bounds array, "
         "method, start, fun and jac it receives are compared with the Lean driver exactly; the assumed optimiser contract is observed on every call; "
         "the property itself is decided by a Lean-independent oracle on real fits over catalogue and random models and five loss classes "
         "(result inside the box exactly, recomputed cost(result) <= cost(x)(1+1e-9), fit(theta*) = theta* to 1e-5), also for SEQUENCES of fit calls on one loss "
         "object (other boxes excluding the earlier optimum, sub-boxes, other starts, interludes on the shared ode, deepcopy, full_output=True; each call judged with its "
         "own box and start, the last repeated on a fresh object) and for x / lb / ub handed over as list / tuple / float array / numpy scalars / integer list, tuple, "
         "array and numpy ints (integer-valued bounds with the start or the generating parameters in the top or bottom unit slice) / None or inf upper entries; "
         "Fit.fit has no instance state and its bounds are rationals whatever container carried them.",
    note="ASSUMED (not proved): scipy's L-BFGS-B honours its bounds, never returns an objective above the start's when it is handed the true gradient "
         "(with a wrong gradient it does: its line search may end on a warning and the step is accepted), and stops at a start whose "
         "projected gradient is below pgtol = 1e-5. These are hypotheses (BoxDescent, StopsAtStationary) of the Lean theorems and are observed, "
         "not proved, on every generated call. The A-matrix/SLSQP branch of fit is outside the property (it cannot run: np.ndarray(A)). "
         "Trusted: Lean kernel + Mathlib, the harness wrapper of base_loss.minimize, exact float->rational conversion, driver JSON codec; the "
         "recomputation oracle relies on pygom's integrator and loss kernels through a fresh loss object (C02/C06/C14). Genuine defects seen by this check: fit raised for GammaLoss with one "
         "observed state (repaired in /repo, 9a6447c); fit returns a point slightly WORSE than its start for target parameters / observed states "
         "given in non-ascending order, because the gradient handed to L-BFGS-B is permuted (the C07 index-order defect; corpus/C18/"
         "worse-than-start-permuted-target.json; repaired in /repo by 050ae69, the C07 index-order fix).",
    technique="Lean 4 index arithmetic (reshape 'F') + optimiser contract as explicit hypothesis + wrapped-minimize correspondence + recomputation oracle")
CLAIMS["C05"] = dict(
    category="proof",
    text="PARTIAL (numpy's generator is assumed). Proved in Lean (Mathlib probability, no extra hypotheses) for any finite number of independent clocks tau_i ~ Exp(r_i), r_i > 0: "
         "the waiting time to the next event is exponential with the total rate, P(all tau_i > s) = exp(-(sum r) s) (min_of_indep_exp); clock i is strictly first with probability "
         "r_i / sum r (first_clock); jointly P(i first and tau_i > s) = (r_i/sum r) exp(-(sum r) s), i.e. event and holding time are independent (step_law); if E ~ Exp(1) then "
         "E/r ~ Exp(rate r), which is what rexp(n, rate) = numpy exponential(scale=1/rate) computes (exp_scale). The step of firstReaction as the code has it (executable model "
         "Pygom/Stoch.lean: one clock per positive-rate event in event order, np.argmin, time advanced by the winning clock) is proved to pick the FIRST MINIMUM of its draws, to fire the "
         "positive-rate event owning it and to advance time by exactly that minimum (model_step_is_first_min, chosen_event_can_fire, model_step_time, first_min_iff), and the pair (event chosen by that "
         "first-minimum rule, time advance) under independent Exp(r_i) draws has exactly the one-step law of the continuous-time Markov chain, ties included "
         "(model_step_law, model_choice_law). The jump probabilities r_i/sum r sum to one (stepProbs_sum_to_one) and the exact rational SIR final-size law computed from the embedded jump "
         "chain (finalSizePMF, served to the harness by the driver op `finalsize`) is a probability mass function for every S0, I0, beta >= 0, gamma > 0, N > 0 (finalSizePMF_sums_to_one, finalSizePMF_nonneg). "
         "Tie of model to code on every run: (a) exact identities, no statistics: after np.random.seed(s), rexp(1, r) == RandomState(s).standard_exponential()*(1.0/r) == "
         "RandomState(s).exponential(scale=1/r) bit for bit (scalar, vector, consecutive calls); (b) real solve_stochast(exact=True) runs with every numpy draw and evaluator call recorded, each loop "
         "iteration replayed through the Lean step model from the observed pre-state, and the recorded clocks aligned with the path independently of the evaluator calls (one clock per "
         "positive-rate event in event order, scale 1/rate_i at the CURRENT state and time, fired event = owner of the first minimum, time advanced by it). The property itself is decided by a "
         "Lean-independent end-to-end oracle on many real runs: multinomial occupancy at time t of independent individual-level progression chains (1-2 families, 2-4 compartments, skip/back/competing "
         "edges; reference row of expm(Q t) at 40 digits), SIR final size (exact rational pmf, Python recursion cross-checked exactly against the Lean driver), and the law of rexp; every cell is "
         "judged by an exact binomial acceptance region, Bonferroni-split so that the total false-alarm probability of a run of the check is < 1e-8.",
    note="ASSUMED: numpy's standard_exponential yields independent Exp(1) variates and floats are treated as reals (firstMin_cast: the model's choice on rational draws is the choice on the same numbers as reals). "
         "NOT formalised: the composition of one-step laws into the law of whole paths (strong Markov property / construction of the chain from jump chain and holding times); that composition is exactly what the "
         "end-to-end statistics test on the real code. The multinomial occupancy reference is computed in Python (mpmath.expm), not in Lean. Rates are autonomous (with time-dependent rates the first-reaction "
         "method with frozen rates is not exact; outside the property's closed-form families). Trusted: Lean kernel + Mathlib, scipy.stats.binom (regions re-verified with cdf/sf, computed at half the allotted "
         "alpha to absorb rounding), the harness tracer/generators, driver JSON codec. A sampler with the same law but another algorithm (e.g. the direct method) breaks tie (b) without a statistical violation and "
         "is then reported as `no-failing-input-found` by the verdict protocol (tried: 0 violations over 288 statistical cases). Detection self-test (quick tier, each a VIOLATION with replay): scale=rate, argmax, "
         "clock for zero-rate events, rates evaluated once before the loop, rates one step stale, dt from another clock, one clock skipped.",
    technique="Lean 4 / Mathlib measure theory (independence, product measures, exponential law) + first-minimum link to the executable step model + recorded-draw replay correspondence + exact-binomial end-to-end statistics")
CLAIMS["C16"] = dict(
    category="proof",
    text="PARTIAL: that DIFFERENT seeds change the outputs is a statement about numpy's generator and is observed at run time only (see note); "
         "reproducibility and the mean are proved. SERIAL runs only (parallel=False). Proved in Lean about an executable model (Pygom/Seed.lean) in which every stochastic entry point - "
         "solve_stochast (n sequential _jump calls, each first redrawing the stochastic parameters if any, then the while-loop of C04 with "
         "first-reaction / tau-leap / retry steps) and simulate_param / solve_determ with stochastic parameters (one redraw + integration before the loop, "
         "n in the loop, Y = entrywise mean of the returned list) - is a function World -> Output x World of ONE generator state and the model's "
         "parameter vector, for ANY generator, evaluators, integrator, n and path length: the n runs of a call and the calls of a history are chained "
         "through that state and nothing else (run_many_threads_stream, solve_stochast_threads_stream, simulate_param_threads_stream); on a recorded "
         "stream run k consumes the segment after run k-1's and depends on that segment only (stream_segments, segment_determines_run); what a previous "
         "run leaves in the model object cannot change a later seeded run (history_irrelevant, _solve_stochast, _param); the exact request schedule - "
         "per exact step one exponential per positive-rate event in event order with scale 1/rate, per tau step one Poisson per event with mean tau*rate "
         "followed by the retry's exponentials exactly when the leap is rejected, none when all rates are zero, per redraw one request per distribution-valued "
         "dict entry in dict order, n+1 passes for simulate_param (draw_schedule_step/_jump/draw_schedule/_param); the streamed loop is C04's run on the "
         "served variates (jump_is_c04_run); a draw taken from a second source breaks determinacy by the primary stream on a concrete witness "
         "(foreign_source_breaks_counterexample, foreign_retry_breaks_counterexample; no_foreign_requests_primary_only); Y[i][j] = (sum_k Y_all[k][i][j])/n "
         "for every n > 0 (mean_is_mean; mean_over_n_plus_one_counterexample). 'Different seeds change the outputs' is not a theorem about all streams "
         "(different_streams_same_output_counterexample); proved: streams whose first consumed waiting times differ give different paths "
         "(different_first_wait_different_path, first_wait_is_min_of_draws). The model is tied to the code on every run: every call into numpy's global "
         "generator, every rvs of the frozen distributions / sampler of the tuples handed to the model, every re-seed and every other source "
         "(RandomState, default_rng, Generator, random module) is recorded during real runs; the recorded (kind, parameter, value) sequence must equal the "
         "Lean model's schedule for the observed path (stream threaded through all iterations of all jumps; simulateParam run as is on reference "
         "integrations), replaying the recorded calls on a fresh RandomState(seed) must reproduce every value bit for bit and end in the global generator's "
         "final state. The property itself is decided on the real outputs by a Lean-independent oracle: same seed => bitwise identical states, times, counts, "
         "Y, Y_all (fresh model, same model again, seed;A;B sequences, after a different earlier run + re-seed, full_output both ways, exact / adaptive tau / "
         "fixed tau with rejected leaps, raw and gridded, n = 1..6, both random-parameter forms incl. dict arguments, partial and mixed dicts); different seeds "
         "=> different outputs; Y == exact rational mean(Y_all) to 1e-12.",
    note="Runtime, not proved: that two different numpy seeds give streams whose first consumed draws differ (checked only where the recorded run makes a "
         "coincidence less likely than 1e-12: raw output, >= 20 events, a continuous waiting time in the output or prod Poisson pmf < 1e-12; random-parameter "
         "runs whose integrations depend on the draws); numpy's generator being a deterministic function of its state; scipy's integrator being deterministic "
         "(cases in which lsoda fails or overflows - finite-time blow-up of a generated model - return garbage that differs from call to call and are "
         "skipped and counted). Parallel runs (dask, seed=True: a fresh unseeded RandomState per path by design) are outside the property. "
         "exact()/cle()/hybrid() helper entry points and the cython back-end are not exercised. The replay of stochastic runs is per loop iteration from "
         "the observed pre-state (C04), not of the whole loop at once (float rounding of times). Trusted: Lean kernel; the Recorder (wrappers of numpy.random, "
         "scipy frozen rvs, samplers, generator constructors), C04's tracer, a deterministic step/rate cap on explosive paths, exact float->rational "
         "conversion, driver JSON codec.",
    technique="Lean 4 state-threading model (induction over n, fuel, request lists; prefix/segment lemmas; decide counterexamples) + recorded-draw schedule correspondence "
              "+ shadow-generator accounting + bitwise reproducibility oracle")
