#!/usr/bin/env python3
"""regenerate the table of seeded changes in DESIGN.md (between the SEEDED-TABLE markers) from seeded/*/meta.json"""
import glob, json, os, re
V = os.path.dirname(os.path.dirname(os.path.abspath(__file__)))
rows = []
for d in sorted(glob.glob(os.path.join(V, "seeded", "*"))):
    mp = os.path.join(d, "meta.json")
    if not os.path.exists(mp):
        continue
    m = json.load(open(mp))
    v = m.get("verified_by_main_session", {})
    checks = v.get("checks", {})
    caught = [c for c, r in checks.items() if r.get("exit") == 1]
    missed = [c for c, r in checks.items() if r.get("exit") != 1]
    tests = v.get("tests_with_change") or {}
    tl = (tests.get("tail") or [""])[0] if tests else ""
    note = m.get("strengthened") or ""
    def cell(s, n):
        s = " ".join(str(s).split()).replace("|", "/")
        return s if len(s) <= n else s[:n - 1] + "…"
    rows.append("| `%s` | %s | %s | %s | %s | %s |" % (
        os.path.basename(d), cell(m.get("summary", ""), 260), cell(m.get("needs_to_manifest", ""), 200),
        "%s/%s" % (v.get("demo_without_change_exit"), v.get("demo_with_change_exit")),
        cell(tl, 40) or "(sub-agent run only)",
        ("**caught**: " + ", ".join(caught) if caught else "") + ((" ; quiet: " + ", ".join(missed)) if missed else "") + ((" ; " + cell(note, 200)) if note else "")))
table = "\n".join(["| id | change | needs, to manifest | demo exit without/with | repo tests with change | checks |", "|---|---|---|---|---|---|"] + rows)
p = os.path.join(V, "DESIGN.md")
s = open(p).read()
b, e = "<!-- SEEDED-TABLE-BEGIN -->", "<!-- SEEDED-TABLE-END -->"
assert b in s and e in s
s = s[:s.index(b) + len(b)] + "\n" + table + "\n" + s[s.index(e):]
open(p, "w").write(s)
print("%d seeded changes in the table" % len(rows))
