"""Detection self-test for C02 (development time): applies each source mutation (on top of the proposed one-state
jacobian repair) to a scratch worktree of /repo and runs ./check C02 against it.  Usage: python3 tools/c02_mutations.py [M1 M4 ...]"""
import subprocess, json, os, re, sys
VERIF=os.path.dirname(os.path.dirname(os.path.abspath(__file__)))
MUT=os.environ.get('C02_MUT_TREE', '/tmp/rw/c02mut')   # scratch worktree: git -C /repo worktree add --detach $C02_MUT_TREE
OU='src/pygom/model/ode_utils/__init__.py'
DE='src/pygom/model/deterministic.py'
FIX=(DE, b'self.add_func("jacobian", self.get_jacobian_eqn)', b'self.add_func("jacobian", self.get_jacobian_eqn, oT="mat")')
muts=[
 ("M1 remove .copy() in _integrateOneStep", [(OU, b"return r.y.copy(), r.successful(), e, max(e), min(e)", b"return r.y, r.successful(), e, max(e), min(e)"), (OU, b"            return r.y.copy()", b"            return r.y")]),
 ("M2 t[1::] -> t in _integrate2", [(DE, b"t[0], t[1::],", b"t[0], t,")]),
 ("M3 drop includeOrigin append", [(OU, b"    if includeOrigin:\r\n        solution.append(x0)", b"    if includeOrigin:\r\n        pass")]),
 ("M4 full_output restart from x0 instead of o1", [(OU, b"r = _setupIntegrator(func, jac, o1, deltaT, args, method, nsteps)", b"r = _setupIntegrator(func, jac, x0, deltaT, args, method, nsteps)")]),
 ("M5a 'vode' routed to lsoda", [(OU, b"r = scipy.integrate.ode(func, jac).set_integrator('vode',\r\n                                                          with_jacobian=True,", b"r = scipy.integrate.ode(func, jac).set_integrator('lsoda',\r\n                                                          with_jacobian=True,")]),
 ("M5b 'ivode' loses method='bdf'", [(OU, b"set_integrator('vode', method='bdf',", b"set_integrator('vode', method='adams',")]),
 ("M5c 'dop853' routed to dopri5", [(OU, b"set_integrator('dop853', nsteps=nsteps,", b"set_integrator('dopri5', nsteps=nsteps,")]),
 ("M6 full_output restart at t0 instead of deltaT", [(OU, b"r = _setupIntegrator(func, jac, o1, deltaT, args, method, nsteps)", b"r = _setupIntegrator(func, jac, o1, t0, args, method, nsteps)")]),
 ("M7 _setIntegrateTime does not prepend t0 (list case)", [(DE, b"                t = np.append(self._t0, t)\r\n", b"                t = np.array(t)\r\n")]),
 ("M8 _integrate2 passes includeOrigin=False", [(DE, b"includeOrigin=True,", b"includeOrigin=False,")]),
 ("M9 rows reversed (insert at front)", [(OU, b"        solution.append(o1)\r\n", b"        solution.insert(0, o1)\r\n")]),
 ("M10 eigenvalue threshold minE >= -2 -> minE >= 2", [(OU, b"if minE >= -2:", b"if minE >= 2:")]),
 ("M11 scalar t no longer promoted", [(OU, b"        t = [t]\r\n", b"        t = t\r\n")]),
 ("M12 integrate() returns solution without the origin row", [(DE, b"        if full_output:\r\n            return self._odeSolution, self._odeOutput\r\n        else:\r\n            return self._odeSolution\r\n\r\n    def _integrate2", b"        if full_output:\r\n            return self._odeSolution[1:], self._odeOutput\r\n        else:\r\n            return self._odeSolution[1:]\r\n\r\n    def _integrate2")]),
 ("M13 method None with full_output ignores eigenvalues (always lsoda)", [(OU, b"            method = _determineIntegratorGivenEigenValue(e)\r\n        else:", b"            method = 'lsoda'\r\n        else:")]),
]
only = sys.argv[1:] 
rows=[]
for name, reps in muts:
    if only and not any(name.startswith(o) for o in only): continue
    subprocess.run(['git','-C',MUT,'checkout','-q','--','.'],check=True)
    for (f,a,b) in [FIX]+reps:
        p=os.path.join(MUT,f); s=open(p,'rb').read()
        if s.count(a)<1:
            print('PATTERN NOT FOUND', name, a); sys.exit(1)
        open(p,'wb').write(s.replace(a,b))
    env=dict(os.environ, VERIF_REPO=MUT, VERIF_NPROC='8')
    r=subprocess.run(['./check','C02'],cwd=VERIF,env=env,capture_output=True,text=True)
    out=r.stdout+r.stderr
    m=re.search(r'VIOLATION property=C02 replay=(\S+)( no-failing-input-found)?', out)
    sig=None; kind=None
    if m:
        p=json.load(open(m.group(1))); sig=p.get('signature') or p.get('no_longer_checks'); kind=p.get('kind')
    ev=json.load(open(os.path.join(VERIF,'evidence','C02.json')))
    last=out.strip().splitlines()[-1]
    mm=re.search(r'mismatches=(\d+) violations=(\d+)', last)
    rows.append((name, 'caught' if (m and r.returncode==1) else 'MISSED', kind, sig, mm.group(1), mm.group(2), sorted(ev['coverage']['mismatch_kinds'].items())[:4]))
    print(rows[-1], flush=True)
subprocess.run(['git','-C',MUT,'checkout','-q','--','.'],check=True)
