#!/usr/bin/env python3
"""run every claimed check (quick) and validate manifest + evidence; usage: tools/run_all.py [seed] [ids...]"""
import json, subprocess, sys, time, os
V = os.path.dirname(os.path.dirname(os.path.abspath(__file__)))
seed = sys.argv[1] if len(sys.argv) > 1 else "0"
m = json.load(open(os.path.join(V, "MANIFEST.json")))
ids = sys.argv[2:] or [c["property_id"] for c in m["checks"]]
bad = 0
for c in m["checks"]:
    if c["property_id"] not in ids:
        continue
    t = time.time()
    r = subprocess.run(c["quick_cmd"], shell=True, cwd=V, env=dict(os.environ, VERIF_SEED=seed), capture_output=True, text=True)
    last = (r.stdout.strip().splitlines() or [r.stderr[-200:]])[-1]
    v = subprocess.run(["python3-vt", "-c", "import json,jsonschema,sys; jsonschema.validate(json.load(open(sys.argv[1])), json.load(open('/root/.vp/EVIDENCE.schema.json')))", c["evidence_file"]], capture_output=True, text=True)
    ok = r.returncode == 0 and v.returncode == 0
    bad += (not ok)
    print("%s exit=%d evidence=%s %.0fs | %s" % (c["property_id"], r.returncode, "valid" if v.returncode == 0 else "INVALID " + v.stderr[-200:], time.time() - t, last[:160]))
    for l in r.stdout.splitlines():
        if l.startswith("VIOLATION") or l.startswith("KNOWN-FINDING"):
            print("   ", l[:200])
v = subprocess.run(["python3-vt", "-c", "import json,jsonschema; jsonschema.validate(json.load(open('%s/MANIFEST.json')), json.load(open('/root/.vp/MANIFEST.schema.json')))" % V], capture_output=True, text=True)
print("MANIFEST", "valid" if v.returncode == 0 else "INVALID " + v.stderr[-300:])
sys.exit(1 if bad else 0)
