#!/venv/bin/python
"""Minimal reproducers (corpus cases) of the history / input-form / second-instance failures C01, C03 and C12 are
strengthened against: seeded changes C01-b2, C03-b1 (= C02-b2), C12-b1 (= C08-b1), C12-b2 and the genuine defect
C12-deepcopy-generator-bound-to-original.  Deterministic; writes corpus/C01|C03|C12/*.json.
   /venv/bin/python tools/mk_corpus_det.py"""
import copy, json, os, random, sys
V = os.path.dirname(os.path.dirname(os.path.abspath(__file__)))
sys.path.insert(0, V)
from harness import exprs as E
from harness import gen

v, n, mul = E.var, E.num, E.mul
ABSTRACT = {
    "decl_states": ["S", "I", "R"], "states": ["S", "I", "R"], "params": ["beta", "gamma", "k", "mu"], "derived": [], "lims": None,
    "procs": [
        {"rate": mul(mul(v("beta"), v("S")), v("I")), "kind": "mass", "transitions": [{"type": "T", "origin": "S", "dest": "I", "mag": v("k")}]},
        {"rate": mul(v("gamma"), v("I")), "kind": "linear", "transitions": [{"type": "T", "origin": "I", "dest": "R", "mag": n(1)}]},
        {"rate": mul(v("mu"), v("R")), "kind": "linear", "transitions": [{"type": "B", "origin": None, "dest": "S", "mag": n(2)}]},
    ],
    "odes": [{"state": "R", "expr": E.neg(mul(v("mu"), v("R")))}],
}
PTS = [{"S": "10", "I": "5/2", "R": "3", "beta": "3/10", "gamma": "2/7", "k": "11/10", "mu": "1/13", "t": "0"},
       {"S": "7/2", "I": "4", "R": "1", "beta": "9/13", "gamma": "1/7", "k": "5/7", "mu": "4/10", "t": "1/2"},
       {"S": "20/3", "I": "1", "R": "8", "beta": "2/13", "gamma": "6/7", "k": "19/10", "mu": "3/7", "t": "5/4"},
       {"S": "12", "I": "0", "R": "3", "beta": "5/7", "gamma": "3/13", "k": "7/10", "mu": "2/13", "t": "2"}]
FORMS = [{"x": "ndarray", "t": "float", "p": "list"}, {"x": "list", "t": "np.float64", "p": "ndarray"},
         {"x": "tuple", "t": "float", "p": "dict_name"}, {"x": "ndarray_int64", "t": "int", "p": "pairs"}]


def write(prop, slug, case):
    d = os.path.join(V, "corpus", prop)
    os.makedirs(d, exist_ok=True)
    with open(os.path.join(d, slug + ".json"), "w") as f:
        json.dump(case, f, indent=1)
    print("wrote corpus/%s/%s.json" % (prop, slug))


def main():
    spec, meta = gen.make_spec(random.Random(1), ABSTRACT, routes=("event",))
    probe = {"forms": FORMS, "reassign_form": "tuple",
             "sibling": {"state_rev": False, "param_perm": [3, 2, 1, 0], "derived_bump": False, "last_event_incremental": True}}
    # C01: a symbolic magnitude (k) makes vMat depend on the parameters: kept vMat arrays must keep their values
    write("C01", "kept-results-and-second-instance-SIR-symbolic-magnitude",
          {"spec": spec, "meta": meta, "points": PTS, "backend": "lambda", "malformed": None, "probe": probe,
           "note": "reproduces seeded C01-b2 (kept:rates+vmat), C03-b1/C02-b2 (sibling: parameter order permuted), C12-b1/C08-b1 (sibling:staged)"})
    # C01: genuine defect C03-integer-dtype-state-overflow seen through ode / eventRateVector (beta*S*I as int32 at S*I > 2**31)
    write("C01", "integer-dtype-state-overflow-SIR-int32-population",
          {"spec": spec, "meta": meta, "points": PTS, "backend": "lambda", "malformed": None,
           "probe": {"big": {"point": dict(PTS[0], S="100000", I="50000", R="30000", t="1"), "x": "ndarray_int32"}, "forms": FORMS, "reassign_form": "list", "sibling": None},
           "note": "ode(x,t) of an SIR model for S=1e5, I=5e4 given as an int32 array: beta*S*I wraps around"})
    # C03: the same model, events in the constructor (declared order), three points
    write("C03", "kept-results-and-second-instance-SIR-symbolic-magnitude",
          {"spec": spec, "meta": meta, "points": PTS[:2] + PTS[3:], "probe": dict(probe, forms=FORMS[:2] + FORMS[3:]),
           "note": "reproduces seeded C01-b2 (kept:*), C03-b1 (sibling:*:not-derivative), C12-b1/C08-b1 (sibling:staged:*)"})
    # C03: genuine defect C03-integer-dtype-state-overflow - fixed-width numpy integers wrap around inside the evaluators
    ab2 = {"decl_states": ["V", "C"], "states": ["V", "C"], "params": ["alpha"], "derived": [], "lims": None, "odes": [],
           "procs": [{"rate": mul(mul(v("alpha"), v("C")), v("C")), "kind": "mass",
                      "transitions": [{"type": "T", "origin": "C", "dest": "V", "mag": n(3)}]}]}
    spec2, meta2 = gen.make_spec(random.Random(1), ab2, routes=("event",))
    write("C03", "integer-dtype-state-overflow",
          {"spec": spec2, "meta": meta2,
           "points": [{"V": "7/2", "C": "19/3", "alpha": "9/5", "t": "0"}, {"V": "12", "C": "5/2", "alpha": "11/7", "t": "1/2"},
                      {"V": "3400", "C": "1900", "alpha": "9/5", "t": "1"}],
           "probe": {"big": {"point": {"V": "340000", "C": "190000", "alpha": "9/5", "t": "2"}, "x": "ndarray_int64"},
                     "forms": [{"x": "list", "t": "float", "p": "list"}, {"x": "ndarray", "t": "float", "p": "list"},
                               {"x": "ndarray_int32", "t": "int", "p": "list"}],
                     "reassign_form": "list", "sibling": None},
           "note": "transitionVar = 36*C**4*alpha**3 wraps around for C=1900 as int32 and for C=190000 as int64 (the default integer dtype)"})
    c = json.load(open(os.path.join(V, "corpus", "C03", "integer-dtype-state-overflow.json")))
    c["probe"]["forms"][2]["x"] = "list_int"
    c["note"] = "as above, only the population-scale probe (int64, the default integer dtype of numpy) shows it"
    write("C03", "integer-dtype-state-overflow-int64-population", c)
    # C12
    ab = {k: ABSTRACT[k] for k in ("states", "params", "procs", "odes", "derived")}
    A = copy.deepcopy(spec)                                   # everything through the constructor, Event objects
    B = copy.deepcopy(spec)                                   # first event in the constructor, the rest incrementally
    B["then"] = [dict(op="add_event", **e) for e in B["ctor"]["event"][1:]] + [{"op": "add_ode", "t": t} for t in B["ctor"]["ode"]]
    B["ctor"]["event"], B["ctor"]["ode"] = B["ctor"]["event"][:1], []
    F = copy.deepcopy(spec)                                   # one object per keyword, legacy keywords
    ev = F["ctor"]["event"]
    tj = lambda e: dict(e["transitions"][0], eq=e["rate"])
    F["ctor"] = {"event": [ev[0]], "transition": [tj(ev[1])], "birth_death": [tj(ev[2])], "ode": F["ctor"]["ode"]}
    base = {"A": A, "B": B, "F": F, "routesA": ["event"] * 3, "routesB": ["event", "incremental"], "routesF": ["event", "legacy", "one_per_keyword"],
            "states": ab["states"], "params": ab["params"], "abstract": ab, "points": PTS[:2]}
    write("C12", "interleaved-incremental-construction-SIR",
          dict(base, formsA={}, formsB={}, formsF={},
               schedule=[["build", "B"], ["eval", "B"], ["build", "A"], ["op", "B"], ["eval", "A"], ["eval", "B"], ["build", "F"],
                         ["op", "B"], ["eval", "F"], ["eval", "B"], ["op", "B"], ["eval", "A"], ["eval", "B"]],
               note="reproduces seeded C12-b1 / C08-b1: an instance extended by add_* is stale after ANOTHER instance compiled its ode"))
    write("C12", "one-object-instead-of-a-list-SIR",
          dict(base, formsA={"param": "tuple"}, formsB={"then": ["setter_list", "setter_tuple", "setter_single"]},
               formsF={"ctor": {"event": "tuple", "transition": "tuple", "birth_death": "single", "ode": "single"}},
               schedule=[["build", "A"], ["build", "F"], ["eval", "F"], ["build", "B"], ["op", "B"], ["op", "B"], ["op", "B"], ["eval", "B"]],
               note="reproduces seeded C12-b2: birth_death=<Transition> / ode=<Transition> given to the constructor as one bare object"))
    write("C12", "deepcopy-then-add-event",
          dict(base, formsA={}, formsB={}, formsF={},
               schedule=[["build", "A"], ["build", "B"], ["eval", "B"], ["clone", "B"], ["op", "B"], ["eval", "B"], ["op", "B"], ["op", "B"],
                         ["eval", "B"], ["build", "F"]],
               note="genuine defect C12-deepcopy-generator-bound-to-original: evaluators of a deep copy are generated from the original's definition"))


if __name__ == "__main__":
    main()
