#!/venv/bin/python
"""Minimal reproducers (corpus cases) of the history / input-form / second-instance failures C01, C03 and C12 are
strengthened against: seeded changes C01-b2, C03-b1 (= C02-b2), C12-b1 (= C08-b1), C12-b2 and the genuine defect
C12-deepcopy-generator-bound-to-original.  Deterministic; writes corpus/C01|C03|C12/*.json.
   /venv/bin/python tools/mk_corpus_det.py"""
import copy, json, os, random, sys
V = os.path.dirname(os.path.dirname(os.path.abspath(__file__)))
sys.path.insert(0, V)
from harness import exprs as E
from harness import gen

v, n, mul = E.var, E.num, E.mul
ABSTRACT = {
    "decl_states": ["S", "I", "R"], "states": ["S", "I", "R"], "params": ["beta", "gamma", "k", "mu"], "derived": [], "lims": None,
    "procs": [
        {"rate": mul(mul(v("beta"), v("S")), v("I")), "kind": "mass", "transitions": [{"type": "T", "origin": "S", "dest": "I", "mag": v("k")}]},
        {"rate": mul(v("gamma"), v("I")), "kind": "linear", "transitions": [{"type": "T", "origin": "I", "dest": "R", "mag": n(1)}]},
        {"rate": mul(v("mu"), v("R")), "kind": "linear", "transitions": [{"type": "B", "origin": None, "dest": "S", "mag": n(2)}]},
    ],
    "odes": [{"state": "R", "expr": E.neg(mul(v("mu"), v("R")))}],
}
PTS = [{"S": "10", "I": "5/2", "R": "3", "beta": "3/10", "gamma": "2/7", "k": "11/10", "mu": "1/13", "t": "0"},
       {"S": "7/2", "I": "4", "R": "1", "beta": "9/13", "gamma": "1/7", "k": "5/7", "mu": "4/10", "t": "1/2"},
       {"S": "20/3", "I": "1", "R": "8", "beta": "2/13", "gamma": "6/7", "k": "19/10", "mu": "3/7", "t": "5/4"},
       {"S": "12", "I": "0", "R": "3", "beta": "5/7", "gamma": "3/13", "k": "7/10", "mu": "2/13", "t": "2"}]
FORMS = [{"x": "ndarray", "t": "float", "p": "list"}, {"x": "list", "t": "np.float64", "p": "ndarray"},
         {"x": "tuple", "t": "float", "p": "dict_name"}, {"x": "ndarray_int64", "t": "int", "p": "pairs"}]


def write(prop, slug, case):
    d = os.path.join(V, "corpus", prop)
    os.makedirs(d, exist_ok=True)
    with open(os.path.join(d, slug + ".json"), "w") as f:
        json.dump(case, f, indent=1)
    print("wrote corpus/%s/%s.json" % (prop, slug))


def main():
    spec, meta = gen.make_spec(random.Random(1), ABSTRACT, routes=("event",))
    probe = {"forms": FORMS, "reassign_form": "tuple",
             "sibling": {"state_rev": False, "param_perm": [3, 2, 1, 0], "derived_bump": False, "last_event_incremental": True}}
    # C01: a symbolic magnitude (k) makes vMat depend on the parameters: kept vMat arrays must keep their values
    write("C01", "kept-results-and-second-instance-SIR-symbolic-magnitude",
          {"spec": spec, "meta": meta, "points": PTS, "backend": "lambda", "malformed": None, "probe": probe,
           "note": "reproduces seeded C01-b2 (kept:rates+vmat), C03-b1/C02-b2 (sibling: parameter order permuted), C12-b1/C08-b1 (sibling:staged)"})
    # C03: the same model, events in the constructor (declared order), three points
    write("C03", "kept-results-and-second-instance-SIR-symbolic-magnitude",
          {"spec": spec, "meta": meta, "points": PTS[:2] + PTS[3:], "probe": dict(probe, forms=FORMS[:2] + FORMS[3:]),
           "note": "reproduces seeded C01-b2 (kept:*), C03-b1 (sibling:*:not-derivative), C12-b1/C08-b1 (sibling:staged:*)"})
    # C12
    ab = {k: ABSTRACT[k] for k in ("states", "params", "procs", "odes", "derived")}
    A = copy.deepcopy(spec)                                   # everything through the constructor, Event objects
    B = copy.deepcopy(spec)                                   # first event in the constructor, the rest incrementally
    B["then"] = [dict(op="add_event", **e) for e in B["ctor"]["event"][1:]] + [{"op": "add_ode", "t": t} for t in B["ctor"]["ode"]]
    B["ctor"]["event"], B["ctor"]["ode"] = B["ctor"]["event"][:1], []
    F = copy.deepcopy(spec)                                   # one object per keyword, legacy keywords
    ev = F["ctor"]["event"]
    tj = lambda e: dict(e["transitions"][0], eq=e["rate"])
    F["ctor"] = {"event": [ev[0]], "transition": [tj(ev[1])], "birth_death": [tj(ev[2])], "ode": F["ctor"]["ode"]}
    base = {"A": A, "B": B, "F": F, "routesA": ["event"] * 3, "routesB": ["event", "incremental"], "routesF": ["event", "legacy", "one_per_keyword"],
            "states": ab["states"], "params": ab["params"], "abstract": ab, "points": PTS[:2]}
    write("C12", "interleaved-incremental-construction-SIR",
          dict(base, formsA={}, formsB={}, formsF={},
               schedule=[["build", "B"], ["eval", "B"], ["build", "A"], ["op", "B"], ["eval", "A"], ["eval", "B"], ["build", "F"],
                         ["op", "B"], ["eval", "F"], ["eval", "B"], ["op", "B"], ["eval", "A"], ["eval", "B"]],
               note="reproduces seeded C12-b1 / C08-b1: an instance extended by add_* is stale after ANOTHER instance compiled its ode"))
    write("C12", "one-object-instead-of-a-list-SIR",
          dict(base, formsA={"param": "tuple"}, formsB={"then": ["setter_list", "setter_tuple", "setter_single"]},
               formsF={"ctor": {"event": "tuple", "transition": "tuple", "birth_death": "single", "ode": "single"}},
               schedule=[["build", "A"], ["build", "F"], ["eval", "F"], ["build", "B"], ["op", "B"], ["op", "B"], ["op", "B"], ["eval", "B"]],
               note="reproduces seeded C12-b2: birth_death=<Transition> / ode=<Transition> given to the constructor as one bare object"))
    write("C12", "deepcopy-then-add-event",
          dict(base, formsA={}, formsB={}, formsF={},
               schedule=[["build", "A"], ["build", "B"], ["eval", "B"], ["clone", "B"], ["op", "B"], ["eval", "B"], ["op", "B"], ["op", "B"],
                         ["eval", "B"], ["build", "F"]],
               note="genuine defect C12-deepcopy-generator-bound-to-original: evaluators of a deep copy are generated from the original's definition"))


if __name__ == "__main__":
    main()
