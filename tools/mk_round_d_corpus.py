#!/venv/bin/python
"""writes the minimal reproducers of the round-d seeded changes (C02-d1, C06-d1, C07-d1) into corpus/ (a corpus case is just a case):
    tools/mk_round_d_corpus.py"""
import json, os, random, sys
V = os.path.dirname(os.path.dirname(os.path.abspath(__file__)))
sys.path.insert(0, V)
from harness.props import c02, c06, c07, losscommon as LC   # noqa: E402


def write(prop, slug, case):
    d = os.path.join(V, "corpus", prop)
    os.makedirs(d, exist_ok=True)
    json.dump(case, open(os.path.join(d, slug + ".json"), "w"), indent=1)
    print("wrote", prop, slug)


def c02_case(name, wide, t0="0", entries=None):
    ent = c02.catalogue_entry(name)
    c = {"kind": "catalogue", "name": name, "params": ent["params"], "x0": ent["x0"], "t0": t0, "stiff": bool(ent.get("stiff")), "fracs": [], "hscale": "1",
         "gridmods": [], "grid_kind": "wide", "wide": wide, "container": "ndarray", "radau": False}
    if entries:
        c["entries"] = entries
    return c


# C02-d1: hmax = first gap in the odeint wrapper
write("C02", "seed-C02-d1-log-spaced-grid-six-decades", c02_case("SIR_norm", {"kind": "log", "decades": 6, "n": 25}))
write("C02", "seed-C02-d1-first-observation-just-after-t0-then-daily", c02_case("SIR", {"kind": "early", "decades": 6, "n": 30}))
write("C02", "seed-C02-d1-robertson-documented-grid", c02_case("Robertson", {"kind": "doc", "decades": 6, "n": 61}, entries="odeint"))

# C06-d1: elapsed-time clock in BaseLoss._getSolution (seasonal forcing, t0 = 30)
r = random.Random(20260929)
case = c06._loss_case(r, model_variant="td-catalogue", grid_variant="plain")
s = LC.gen_setup_td(random.Random(7), name="SIR_lockdown", shape="seasonal")
s["obs"] = ["I", "S"]
LC.shift_setup(s, 30.0)
s.update({"grid_variant": "shifted", "model_variant": "td-catalogue"})
case.update({"setup": s, "target_param": None, "target_state": None, "rejected_inputs": False, "data": "truth"})
n, p = len(s["times"]), 2
case["weights"] = ["per-state", [2.0, 0.5]]
for cls_ in case["spreads"]:
    case["spreads"][cls_] = ["default", None]
write("C06", "seed-C06-d1-seasonal-forcing-clock-starts-at-30", case)

# C07-d1: gradient() -> adjoint() beyond 100 forward sensitivities (11 stages x 10 rates)
names = sorted(LC.LARGE_CATALOGUE)
case = c07._large_case(random.Random(11), names.index("chain11x10") + 2 * len(names))
case["setup"]["obs"] = ["X5", "X10"]
case["weights"], case["classes"] = ["none", None], ["Square"]
write("C07", "seed-C07-d1-staged-progression-11-stages-10-rates", case)
