#!/usr/bin/env python3
"""Regenerate MANIFEST.json from the table below (kept next to the checks so it cannot drift)."""
import json, os
V = os.path.dirname(os.path.dirname(os.path.abspath(__file__)))
props = [json.loads(l) for l in open(os.path.join(V, "properties.jsonl"))]

CLAIMS = {}   # id -> dict(text, note, technique, design_ref)
exec(open(os.path.join(V, "tools", "claims.py")).read())

checks, na = [], []
for p in props:
    i = p["id"]
    if i in CLAIMS:
        c = CLAIMS[i]
        checks.append({
            "property_id": i,
            "quick_cmd": "./check %s --tier quick" % i,
            "thorough_cmd": "./check %s --tier thorough" % i,
            "evidence_file": "/verif/evidence/%s.json" % i,
            "replay_cmd_template": "./check %s --replay {path}" % i,
            "engine": "lean4-proof+correspondence",
            "level_claimed": {"category": c.get("category", "proof"), "text": c["text"], "design_ref": c.get("design_ref", "DESIGN.md section 5, " + i)},
            "level_note": c["note"],
            "technique": c["technique"],
        })
    else:
        na.append({"property_id": i, "reason": NOT_CLAIMED.get(i, "check not built yet in this session; nothing is claimed for it")})
m = {
    "version": 1,
    "setup_cmd": "./setup.sh",
    "hooks": {"guard": "PYGOM_VERIF", "enable": "no source hooks are needed: the harness observes pygom from outside (attribute wrappers, numpy.random wrappers, a fake scipy.integrate.ode); PYGOM_VERIF=1 is set by the harness and is reserved",
              "baseline_off_cmd": "cd /repo && env -u PYGOM_VERIF /venv/bin/python -m pytest -ra -q -p no:cacheprovider --timeout=900 --continue-on-collection-errors",
              "source_commits": [], "add_only": True},
    "engines": [{"name": "lean4-proof+correspondence", "path": "/verif/check", "serves_properties": [c["property_id"] for c in checks],
                 "kind_free_text": "Lean 4 theorems about a hand-written executable model (lean/Pygom) + differential correspondence of the model's native driver against the real pygom code in-process + Lean-independent direct oracle for failing-input search; translators regenerate Lean from loss_type.py/distn.py"}],
    "checks": checks,
    "not_applicable": na,
    "notes": "See DESIGN.md. Every check: lake build of the property's theorem module + #print axioms audit, then correspondence model<->code on generated cases, then verdict protocol (DESIGN.md section 3). known_findings.json lists recorded defects and fix: commits.",
}
json.dump(m, open(os.path.join(V, "MANIFEST.json"), "w"), indent=1)
print("claimed", [c["property_id"] for c in checks], "not claimed", [n["property_id"] for n in na])
