#!/usr/bin/env python3
"""re-run every stored seeded change against the current /verif and /repo HEAD with the check of the property it breaks
(serially: the translator-generated Lean files are shared).  usage: tools/seed_recheck_all.py [ids...]"""
import glob, json, os, subprocess, sys, time
V = os.path.dirname(os.path.dirname(os.path.abspath(__file__)))
ids = sys.argv[1:] or [os.path.basename(d) for d in sorted(glob.glob(os.path.join(V, "seeded", "*")))]
out = []
for sid in ids:
    prop = sid.split("-")[0]
    t = time.time()
    r = subprocess.run([sys.executable, os.path.join(V, "tools", "seed_recheck.py"), sid, prop], capture_output=True, text=True)
    line = (r.stdout.strip().splitlines() or [r.stderr.strip()[-200:]])[-1]
    print("%s %.0fs %s" % (sid, time.time() - t, line[:200]), flush=True)
