#!/venv/bin/python
"""writes the hand-made history cases of corpus/C06 and corpus/C07 (minimal reproducers of the seeded changes C06-b1,
C06-b2, C07-b1, C07-b2 and of the two integer-container defects of the unchanged tree); a corpus case is just a case:
    tools/mk_loss_corpus.py"""
import json, os, sys
V = os.path.dirname(os.path.dirname(os.path.abspath(__file__)))
sys.path.insert(0, V)
from harness.props import losshist as LH   # noqa: E402

SIR = {"model": {"src": "catalogue", "name": "SIR"}, "states": ["S", "I", "R"], "params": ["beta", "gamma", "N"],
       "theta_true": [0.5, 0.25, 10.0], "theta_eval": [0.42, 0.3, 10.5], "x0": [8.0, 1.5, 0.5], "x0_eval": [7.5, 1.7, 0.6],
       "t0": 0.0, "times": [1.0, 2.0, 3.5, 5.0], "grid": "non-uniform", "obs": ["I", "R"]}
FORMS = {"y": "ndarray", "x0": "list", "t": "ndarray", "theta0": "list", "w": "list", "spread": "list", "names": "list", "t0": "float"}
B = [0.55, 0.21, 9.5]
U = [0.47, 0.27, 11.0]


def obj(cls="Square", tp=None, ts=None, obs=None, model=0, weights=None, spread=None, **forms):
    return {"model": model, "cls": cls, "obs": obs or ["I", "R"], "tp": tp, "ts": ts, "weights": weights or ["none", None],
            "spread": spread or ["default", None], "forms": dict(FORMS, **forms)}


def case(name, prop, family, objects, script, setup=None, models=None):
    s = dict(SIR, **(setup or {}))
    pts = {"A": s["theta_eval"], "B": B, "U": U, "X": s["x0"], "Y": s["x0_eval"]}
    ops = []
    for op in script:
        if op[0] == "new":
            ops.append({"op": "new", "obj": op[1]})
        elif op[0] == "set":
            ops.append({"op": "set_model", "model": op[1], "values": [[k, v] for k, v in op[2].items()], "form": "dict"})
        elif op[0] == "deepcopy":
            ops.append({"op": "deepcopy", "src": op[1], "obj": op[2]})
        else:
            o, fn, th, x0 = op[0], op[1], op[2], (op[3] if len(op) > 3 else "X")
            if th is None:
                ops.append({"op": "call", "obj": o, "fn": fn, "arg": None})
            else:
                ops.append({"op": "call", "obj": o, "fn": fn, "arg": LH._arg(s, objects[o], fn, pts[th], pts[x0]), "form": "ndarray"})
    c = {"kind": "history", "family": family, "setup": s, "points": pts, "models": models or [{"theta": list(s["theta_true"])}],
         "objects": objects, "ops": ops, "noise_seed": 12345, "pair": [], "note": name}
    d = os.path.join(V, "corpus", prop)
    os.makedirs(d, exist_ok=True)
    json.dump(c, open(os.path.join(d, name + ".json"), "w"), indent=1)


INT_X0 = {"x0": [8.0, 1.0, 1.0], "x0_eval": [7.5, 1.7, 1.6]}
# ---- unchanged tree: x0 given as ints + target_state -> free initial values truncated (proposed_fixes/C06-int-x0-target-state.diff)
case("int-x0-target-state", "C06", "forms", [obj(ts=["I"], x0="int-list")],
     [("new", 0), (0, "costIV", "A", "Y"), (0, "residualIV", "A", "Y"), (0, "cost", "A")], setup=INT_X0)
case("int-x0-target-state", "C07", "forms", [obj(ts=["I"], x0="int-ndarray")],
     [("new", 0), (0, "sensitivityIV", "A", "Y"), (0, "jacIV", "A", "Y"), (0, "sensitivity", "A")], setup=INT_X0)
# ---- unchanged tree: integer grid + fractional t0 -> jac/jacIV start at int(t0) (proposed_fixes/C07-int-grid-fractional-t0.diff)
case("int-grid-fractional-t0", "C07", "forms", [obj(t="int-ndarray"), obj(cls="Poisson", t="int-list", obs=["I"])],
     [("new", 0), ("new", 1), (0, "sensitivity", "A"), (0, "jac", "A"), (0, "sensitivityIV", "A", "Y"), (1, "gradient", "A"), (1, "jacIV", "A", "Y")],
     setup={"t0": 0.5, "times": [1.0, 2.0, 4.0, 5.0]})
# ---- seeded C06-b1: last integration memoised on the parameter values only
case("seed-C06-b1-same-theta-other-x0", "C06", "pairs", [obj(), obj(tp=["beta", "gamma"], ts=["I"], obs=["I"])],
     [("new", 0), (0, "cost", "A"), (0, "costIV", "A", "Y"), (0, "cost", "A"), (0, "residualIV", "A", "X"), (0, "residual", "A"),
      ("new", 1), (1, "costIV", "A", "X"), (1, "costIV", "A", "Y"), (1, "cost", None), ("set", 0, {"N": 11.0}), (1, "cost", None), (1, "residual", "A")])
# ---- seeded C06-b2: parameters pushed to the shared model object only where _setParam is called
case("seed-C06-b2-target-param-costIV", "C06", "pairs", [obj(tp=["gamma", "beta"], ts=["I"]), obj(tp=["beta"])],
     [("new", 0), (0, "cost", "A"), (0, "costIV", "B", "Y"), (0, "residualIV", "A", "X"), ("new", 1), (1, "cost", "A"), (1, "costIV", "B", "Y"), (1, "residualIV", "A", "X")])
case("seed-C06-b2-shared-model-stored-theta", "C06", "shared-model", [obj(obs=["I"]), obj(obs=["R"], tp=["beta", "gamma"])],
     [("new", 0), ("new", 1), (0, "cost", "A"), (1, "cost", "B"), (0, "cost", None), (1, "residual", None), (0, "residual", None),
      ("set", 0, {"beta": 0.47, "gamma": 0.27}), (0, "cost", None), (1, "cost", None)])
# ---- seeded C07-b1: jac keeps [x0, 0...] although an IV entry point moved the targeted initial value
case("seed-C07-b1-stale-x0-after-IV-call", "C07", "pairs", [obj(ts=["I"]), obj(cls="Normal", tp=["beta", "gamma"], ts=["R", "I"], obs=["R"], spread=["scalar", 0.7])],
     [("new", 0), (0, "sensitivity", "A"), (0, "costIV", "A", "Y"), (0, "sensitivity", "A"), (0, "gradient", "A"), (0, "jac", "A"),
      (0, "residualIV", "A", "X"), (0, "sensitivity", "A"),
      ("new", 1), (1, "jac", "A"), (1, "sensitivityIV", "B", "Y"), (1, "gradient", "B"), (1, "diff_lossIV", "A", "X"), (1, "sensitivity", None)])
# ---- seeded C07-b2: Poisson.diff_loss fills np.zeros_like(y): integer observations truncate the derivative
case("seed-C07-b2-integer-observations", "C07", "forms", [obj(cls="Poisson", y="int-ndarray"), obj(cls="Poisson", y="int-list", obs=["R"], tp=["beta"]),
                                                            obj(cls="Poisson", y="list", obs=["I"])],
     [("new", 0), ("new", 1), ("new", 2), (0, "sensitivity", "A"), (0, "diff_loss", "A"), (0, "sensitivityIV", "A", "Y"), (1, "gradient", "A"),
      (1, "diff_lossIV", "A", "Y"), (2, "sensitivity", "A"), (2, "diff_loss", "A")],
     setup={"theta_true": [0.5, 0.25, 60.0], "theta_eval": [0.42, 0.3, 60.0], "x0": [50.0, 8.0, 2.0], "x0_eval": [48.0, 9.0, 3.0]})
print("written")
