#!/venv/bin/python
"""Detection self-test for C06/C07 (development time).  Builds a scratch worktree of the repo with the
proposed fixes applied (the baseline the checks pass on), applies one source mutation at a time and runs
./check; prints the table.   usage: tools/selftest_c06_c07.py [name-filter]"""
import os, subprocess, sys, shutil, glob
VERIF = os.path.dirname(os.path.dirname(os.path.abspath(__file__)))
REPO = os.environ.get("SELFTEST_BASE", "/repo")
SCR = "/tmp/rw/cost_mut"
BL = "src/pygom/loss/base_loss.py"
LT = "src/pygom/loss/loss_type.py"
FIXES = ["C07-index-order.diff", "C07-target-state-index.diff", "C07-weight-vector-single-state.diff"]
# (name, property, file, old, new)   -- old must occur exactly `count` times
MUT = [
 ("C06 solution[:, sorted(idx)]", "C06", BL, b"            return solution[:, self._stateIndex]", b"            return solution[:, sorted(self._stateIndex)]", 1),
 ("C06 observation times shifted (_t[:-1])", "C06", BL, b"                                              self._observeT,\r\n", b"                                              self._t[:-1],\r\n", 1),
 ("C06 theta bound to sorted target names", "C06", BL, b"                        thetaDict[self._targetParam[i]] = theta[i]", b"                        thetaDict[sorted(self._targetParam)[i]] = theta[i]", 1),
 ("C06 costIV ignores x0 (full case)", "C06", BL, b"                self._setX0(theta[-self._num_state:])\r\n                self._setParam(theta[:self._num_param])", b"                self._setParam(theta[:self._num_param])", 1),
 ("C06 per-state weights broadcast along rows", "C06", BL, b"            if q == 1:\r\n                x = np.ones((n, p))*x\r\n", b"            if q == 1:\r\n                x = np.ones((n, p))*x[::-1]\r\n", 1),
 ("C07 jac integrates to _t[:-1]", "C07", BL, b"                         self._t[0], self._t[1::],\r\n                         method=method)\r\n\r\n            if sens_output:\r\n                return sol_sens[:, index_out], sol_sens", b"                         self._t[0], self._t[:-1],\r\n                         method=method)\r\n\r\n            if sens_output:\r\n                return sol_sens[:, index_out], sol_sens", 1),
 ("C07 Square.diff_loss sign", "C07", LT, b"        return -2*self.residual(yhat, apply_weighting)", b"        return 2*self.residual(yhat, apply_weighting)", 1),
 ("C07 j + (i+1)*nS -> i + (j+1)*nS", "C07", BL, b"                    index_out.append(j + (i + 1) * self._num_state)", b"                    index_out.append(i + (j + 1) * self._num_state)", 1),
 ("C07 drop *= self._weight in sens_to_grad", "C07", BL, b"        sens = np.reshape(sens, (n, num_s, num_out), 'F')\r\n        for j in range(num_out):\r\n            sens[:, :, j] *= self._weight\r\n\r\n        grad =", b"        sens = np.reshape(sens, (n, num_s, num_out), 'F')\r\n\r\n        grad =", 1),
 ("C07 IV block offset (i + n_p)*n_s", "C07", BL, b"                    index_out.append(j + (i + 1 + n_p)*n_s)", b"                    index_out.append(j + (i + n_p)*n_s)", 1),
 ("C07 sensitivityIV blocks appended in reverse", "C07", BL, b"            grad = np.append(grad, grad_iv)\r\n\r\n            return grad\r\n", b"            grad = np.append(grad_iv, grad)\r\n\r\n            return grad\r\n", 1),
 ("C07 np.sort back on the index list", "C07", BL, b"                index_out.append(state_index + (i + 1) * self._num_state)\r\n\r\n        return index_out", b"                index_out.append(state_index + (i + 1) * self._num_state)\r\n\r\n        return np.sort(np.array(index_out)).tolist()", 1),
 ("C07 NegBinom.diff_loss k+yhat -> k", "C07", LT, b"        first_derivs_yhat = k*-residual/(yhat*(k+yhat))", b"        first_derivs_yhat = k*-residual/(yhat*(k))", 1),
]

def sh(*a, **k):
    return subprocess.run(a, capture_output=True, text=True, **k)

def fresh():
    sh("git", "-C", REPO, "worktree", "remove", "--force", SCR)
    r = sh("git", "-C", REPO, "worktree", "add", "--detach", SCR)
    assert r.returncode == 0, r.stderr
    for f in FIXES:
        path = os.path.join(VERIF, "proposed_fixes", f)
        if sh("git", "apply", "--binary", "-R", "--check", path, cwd=SCR).returncode == 0:
            continue                                  # already in the tree (applied upstream as a fix: commit)
        r = sh("git", "apply", "--binary", path, cwd=SCR)
        assert r.returncode == 0, (f, r.stderr)

def main():
    flt = sys.argv[1] if len(sys.argv) > 1 else ""
    rows = []
    fresh()
    try:
        for name, prop, f, old, new, cnt in MUT:
            if flt and flt not in name:
                continue
            p = os.path.join(SCR, f)
            b = open(p, "rb").read()
            if b.count(old) != cnt:
                rows.append((name, prop, "MUTATION-DID-NOT-APPLY (%d occurrences)" % b.count(old))); continue
            open(p, "wb").write(b.replace(old, new))
            env = dict(os.environ, VERIF_REPO=SCR)
            r = sh(os.path.join(VERIF, "check"), prop, env=env)
            out = r.stdout + r.stderr
            viol = [l for l in out.splitlines() if l.startswith("VIOLATION")]
            last = out.strip().splitlines()[-1] if out.strip() else ""
            rows.append((name, prop, ("caught: " + viol[0].split("replay=")[1]) if viol and "no-failing-input" not in viol[0] else ("caught (no failing input): " + viol[0]) if viol else "MISSED  " + last))
            open(p, "wb").write(b)
            print(rows[-1], flush=True)
    finally:
        sh("git", "-C", REPO, "worktree", "remove", "--force", SCR)
    print("\n%-50s %-4s %s" % ("mutation", "prop", "result"))
    for r in rows:
        print("%-50s %-4s %s" % r)

if __name__ == "__main__":
    main()
