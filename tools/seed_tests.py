#!/usr/bin/env python3
"""for every seeded/<id> whose meta.json has no test result recorded by the main session: apply the patch to a scratch
worktree of /repo HEAD, run the repository's test suite there, record the tail.  usage: tools/seed_tests.py [ids...]"""
import glob, json, os, shutil, subprocess, sys
V = os.path.dirname(os.path.dirname(os.path.abspath(__file__)))
ids = sys.argv[1:]
for d in sorted(glob.glob(os.path.join(V, "seeded", "*"))):
    sid = os.path.basename(d)
    if ids and sid not in ids:
        continue
    mp = os.path.join(d, "meta.json")
    m = json.load(open(mp))
    v = m.setdefault("verified_by_main_session", {})
    if v.get("tests_with_change") and not ids:
        continue
    wt = "/tmp/rw/tests_%s" % sid
    subprocess.run(["git", "-C", "/repo", "worktree", "remove", "--force", wt], capture_output=True)
    subprocess.run(["git", "-C", "/repo", "worktree", "add", "--detach", wt], check=True, capture_output=True)
    try:
        for so in glob.glob("/repo/src/pygom/model/_tau_leap*.so"):
            shutil.copy(so, os.path.join(wt, "src/pygom/model/"))
        ap = subprocess.run(["git", "-C", wt, "apply", "--whitespace=nowarn", os.path.join(d, "patch.diff")], capture_output=True, text=True)
        if ap.returncode != 0:
            print(sid, "patch does not apply:", ap.stderr[:200]); v["applies"] = False
        else:
            if "_tau_leap.pyx" in open(os.path.join(d, "patch.diff")).read():
                subprocess.run(["/venv/bin/python", "-c", "from setuptools import setup, Extension; from Cython.Build import cythonize; import numpy; "
                                "setup(script_args=['build_ext','--inplace'], ext_modules=cythonize([Extension('pygom.model._tau_leap', ['src/pygom/model/_tau_leap.pyx'], include_dirs=[numpy.get_include()])]))"],
                               cwd=wt, capture_output=True, text=True)
                for so in glob.glob(os.path.join(wt, "pygom/model/_tau_leap*.so")) + glob.glob(os.path.join(wt, "build/lib*/pygom/model/_tau_leap*.so")):
                    shutil.copy(so, os.path.join(wt, "src/pygom/model/"))
            t = subprocess.run(["/venv/bin/python", "-m", "pytest", "-q", "-p", "no:cacheprovider", "--timeout=900", "-n", os.environ.get("SEED_TEST_PROCS", "6"), "tests/"],
                               cwd=wt, env=dict(os.environ, PYTHONPATH=os.path.join(wt, "src")), capture_output=True, text=True)
            v["tests_with_change"] = {"exit": t.returncode, "tail": t.stdout.strip().splitlines()[-1:],
                                      "cmd": "PYTHONPATH=<scratch>/src /venv/bin/python -m pytest -q -p no:cacheprovider --timeout=900 -n 6 tests/"}
            print(sid, v["tests_with_change"]["exit"], v["tests_with_change"]["tail"])
        json.dump(m, open(mp, "w"), indent=1)
    finally:
        subprocess.run(["git", "-C", "/repo", "worktree", "remove", "--force", wt], capture_output=True)
