#!/usr/bin/env python3
"""regenerate every translator-produced Lean file from a tree (default /repo): run after pointing a check at a scratch tree"""
import os, subprocess, sys
V = os.path.dirname(os.path.dirname(os.path.abspath(__file__)))
repo = sys.argv[1] if len(sys.argv) > 1 else "/repo"
code = ("from harness import translate_kernels, translate_wrappers, translate_canary\n"
        "for t in (translate_kernels, translate_wrappers, translate_canary):\n"
        "    r = t.regenerate(%r); print(r.get('path'), 'changed' if r.get('changed') else 'unchanged')\n" % repo)
subprocess.run(["/venv/bin/python", "-c", code], cwd=V, check=True)
