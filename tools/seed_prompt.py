#!/usr/bin/env python3
"""print the prompt given to a fresh sub-agent that must seed a property-breaking change (it sees nothing of /verif)"""
import json, sys
pid, wt = sys.argv[1], sys.argv[2]
n = int(sys.argv[3]) if len(sys.argv) > 3 else 2
style = sys.argv[4] if len(sys.argv) > 4 else "a"
STYLE_B = """
STYLE FOR THIS ROUND (important): an earlier round already produced plain index/sign/condition slips in the obvious functions. This time prefer changes whose effect depends on HISTORY or on the FORM of the input rather than on its value: a cache or memo that is not invalidated (per instance or module level), an attribute or argument array that is aliased and later written in place, state left behind by a previous call (a second call, a second model instance, a call after another entry point was used), behaviour that differs by container type or dtype (list vs tuple vs ndarray, int vs float arrays, numpy scalar vs Python scalar, 0-d arrays), boundary values (zero rates, a time exactly on a grid point, an empty or one-element list, a single state or single parameter), rarely used option combinations and secondary entry points of the property (the less obvious functions named under 'Observable at' / 'Code involved'), or two cooperating edits in different files. Keep it realistic: something a maintainer could plausibly commit as an optimisation, clean-up or robustness tweak.
"""
p = [json.loads(l) for l in open('/verif/properties.jsonl') if json.loads(l)['id'] == pid][0]
print(f"""You are a software engineer testing a verification tool. Your job: craft {n} DIFFERENT realistic source changes ("seeded bugs") to the Python library pygom, each of which BREAKS the semantic property below while the library still imports and its existing test suite still passes. You work ONLY inside your own scratch git worktree of the repository at {wt} (already created; the compiled extension _tau_leap*.so has been copied in). Do NOT read or touch anything under /verif, do NOT modify /repo, do not create other worktrees. No network.

PROPERTY ({p['id']}: {p['title']})
{p['statement']}
It is meant to hold: {p['quantifier']['text']}.
Observable at: {', '.join(p['anchors'].get('observe_at') or [])}.
Code involved: {', '.join(p['anchors']['files'])}.

WHAT MAKES A GOOD CHANGE
* It looks like a plausible maintenance edit or refactoring slip (index/sign/order/aliasing/bookkeeping/condition), 1-15 lines, in the source files under {wt}/src/pygom (several files use CRLF line endings - preserve them; edit in binary-safe fashion or with sed, and check `git diff --stat` shows only the lines you meant).
* It must NOT be exposed by ordinary use at once: prefer changes that need something specific to manifest - a particular model shape (e.g. a birth named by origin, a multi-transition event, a symbolic magnitude, a derived parameter chain, a specific number of states vs parameters), an unusual input, a multi-step sequence of operations, a particular option combination, or two cooperating sites that each look fine alone. The {n} changes must differ in mechanism and location.
* The existing tests must still pass WITH the change: run, from the worktree,
    cd {wt} && PYTHONPATH={wt}/src /venv/bin/python -m pytest -q -p no:cacheprovider --timeout=900 tests/ -x -q
  (about 6-10 minutes for the full suite; run relevant test files first while iterating, then the FULL suite once per final change and report the pass/fail counts; on the unmodified worktree the full suite gives 55 passed, 5 skipped). A change that makes any test fail is not acceptable.
* Provide for each change a small stand-alone demonstration script demo.py (uses only pygom/numpy/scipy/sympy, runs in < 60 s with `PYTHONPATH=<tree>/src /venv/bin/python demo.py`, exits 0 when the property holds on the scenario it checks and exits 1 printing what went wrong when it does not). It must exit 1 with your change applied and exit 0 on the unmodified tree (to compare: `git diff > /tmp/<your-own-name>.diff; git checkout -- .; ...; git apply /tmp/<your-own-name>.diff` - do NOT use `git stash`: the stash is shared by all worktrees of this repository and other agents are working in sibling worktrees). Tips for writing demos: build models with `from pygom import SimulateOde, Transition, Event`; evaluators compile via cython by default which takes seconds per evaluator - set `model._SC = pygom.model.ode_utils.compileCode(backend='lambda')` right after construction for speed; set parameters with `model.parameters = [...]`; for stochastic runs use `model.initial_values = (numpy.array(x0), numpy.float64(0))`.

{STYLE_B if style == "b" else ""}
DELIVERABLES: create the directory {wt}/SEEDED/ and in it, for k = 1..{n}: `change{{k}}.diff` (output of `git diff` for that change alone, relative to the unmodified worktree HEAD), `demo{{k}}.py`, and `meta{{k}}.json` with keys: property, summary (one sentence), needs_to_manifest (what specific input/sequence/shape is required), files_touched, tests_run (command and result counts), demo_result_with_change, demo_result_without_change. Leave the worktree source UNMODIFIED at the end (`git checkout -- .`), with only the SEEDED/ directory added. Your final message: a short table of the {n} changes (summary, what it needs to manifest, test results, demo results).""")
