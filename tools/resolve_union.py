#!/usr/bin/env python3
"""resolve merge conflicts by keeping both sides (for append-only files), dedupe identical lines in conflict blocks"""
import sys
for p in sys.argv[1:]:
    out=[]; seen=set(); inconf=False
    for l in open(p):
        if l.startswith('<<<<<<< '): inconf=True; seen=set(); continue
        if l.startswith('=======') and inconf: continue
        if l.startswith('>>>>>>> ') and inconf: inconf=False; continue
        if l.startswith('||||||| ') and inconf: continue
        if inconf:
            if l in seen and l.strip(): continue
            seen.add(l)
        out.append(l)
    open(p,'w').write(''.join(out))
